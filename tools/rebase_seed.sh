#!/bin/bash
# tools/rebase_seed.sh <patch.diff>: a seeded or no-alarm patch was written against an older /repo commit; if it no longer
# applies to HEAD, find the newest commit it applies to, cherry-pick it onto HEAD in a scratch clone and rewrite the patch
# (the original is kept as <patch>.orig-<commit>). Conflicts are reported and left alone.
p=$(readlink -f $1)
if git -C /repo apply --check $p 2>/dev/null; then echo "$1: applies to HEAD"; exit 0; fi
W=/tmp/rebase.$$; rm -rf $W; git clone -q /repo $W; cd $W; git config user.email a@b; git config user.name builder
for c in $(git log --format=%h | tail -n +2); do
  git checkout -q $c
  if git apply --check $p 2>/dev/null; then
    git checkout -q -b seed_$c; git apply $p; git commit -qam seed
    git checkout -q main; git checkout -q -b rebased
    if git cherry-pick seed_$c >/dev/null 2>&1; then
      cp $p $p.orig-$c; git diff main rebased > $p; echo "$1: rebased from $c"; cd /; rm -rf $W; exit 0
    else
      echo "$1: CONFLICT when moving from $c to HEAD:"; git diff --name-only --diff-filter=U; cd /; rm -rf $W; exit 1
    fi
  fi
done
echo "$1: applies to no commit of /repo"; cd /; rm -rf $W; exit 2
