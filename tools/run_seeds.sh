#!/bin/bash
# tools/run_seeds.sh [tier]: runs every seeded change (must be reported: exit 1 + VIOLATION) and every correct
# refactoring (must stay quiet: exit 0) through the checks, against scratch copies of /repo. About 40 minutes.
tier=${1:-quick}
cd /verif
fail=0
for d in seeded/*/; do
  s=$(basename $d); p=${s:0:3}
  grep -q '"moot": true' $d/meta.json 2>/dev/null && { echo "seeded  $s: moot (see meta.json), skipped"; continue; }
  tools/seedtest.sh $d/patch.diff $p --tier $tier > /tmp/run_seeds.$s.log 2>&1; rc=$?
  n=$(grep -a -c '^VIOLATION' /tmp/run_seeds.$s.log)
  [ $rc -eq 1 ] && [ $n -gt 0 ] && echo "seeded  $s: caught ($n violation lines)" || { echo "seeded  $s: NOT CAUGHT (rc=$rc)"; fail=1; }
done
for d in noalarm/*/; do
  a=$(basename $d)
  case $a in R14) props="C14";; R16) props="C16";; R17) props="C17";; R12) props="C12 C14 C17";; esac
  for f in $d/patch*.diff; do
    for p in $props; do
      tools/seedtest.sh $f $p --tier $tier > /tmp/run_seeds.$a.log 2>&1; rc=$?
      [ $rc -eq 0 ] && echo "noalarm $a/$(basename $f) x $p: quiet" || { echo "noalarm $a/$(basename $f) x $p: ALARM OR ERROR (rc=$rc)"; fail=1; }
    done
  done
done
exit $fail
