# tools/family_reach.py [N]: how many of N generated files of each C12 input family does the unchanged compiler accept, and why are the others refused?
# (the reach measurement of DESIGN 11.5; needs /repo/chibicc built)
import sys,re,subprocess,os
sys.path.insert(0,'/verif/engine/envsim'); sys.path.insert(0,'/verif/engine/common')
import envsim
from vcommon import Rng
import tempfile; D=tempfile.mkdtemp(prefix='famd', dir='/dev/shm')
fams={"constexpr":envsim.gen_constexpr_file,"scale":envsim.gen_scale_file,"lex":envsim.gen_lex_file,"decl":envsim.gen_decl_file,"typeexpr":envsim.gen_typeexpr_file,
      "abi":envsim.gen_abi_file,"feature":envsim.gen_feature_file,"predef":lambda r: envsim.gen_predef_file(r,'/repo')}
N=int(sys.argv[1]) if len(sys.argv)>1 else 150
for name,g in fams.items():
    ok=0;fail={}
    for s in range(N):
        r=Rng(s*7919+3)
        t=g(r)
        open(D+'/x.c','w').write(t)
        try:
            p=subprocess.run(['/repo/chibicc','-S','-o','/dev/null','-I/repo/test',D+'/x.c'],capture_output=True,text=True,timeout=20,errors='replace')
        except subprocess.TimeoutExpired:
            fail['timeout']=fail.get('timeout',0)+1; continue
        if p.returncode==0: ok+=1
        else:
            k=p.stderr.strip().split('\n')[-1].strip()[:70]; fail[k]=fail.get(k,0)+1
    print(name, "%d/%d compile"%(ok,N)); 
    for k,v in sorted(fail.items(),key=lambda x:-x[1])[:6]: print("     ",v,k)
import shutil; shutil.rmtree(D)
