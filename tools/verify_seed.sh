#!/bin/bash
# tools/verify_seed.sh <dir with patch.diff and demo.sh>: confirms that the seeded change compiles, passes the
# existing tests, that its demonstration passes on the unchanged tree and fails with the change.
d=$(readlink -f $1)
W=/tmp/verifyseed.$$.$(basename $d)
git -C /repo worktree add -q --detach $W HEAD || exit 3
cd $W
make -j8 chibicc >/dev/null 2>&1 || { echo "BASE-BUILD-FAIL"; }
timeout 600 bash $d/demo.sh $W >/tmp/vs.$$.base.log 2>&1; base=$?
git apply $d/patch.diff || { echo "PATCH-DOES-NOT-APPLY"; cd /; git -C /repo worktree remove --force $W; exit 3; }
make -j8 chibicc >/dev/null 2>&1; build=$?
timeout 600 make -j8 test >/tmp/vs.$$.test.log 2>&1; tst=$?
rm -rf stage2
timeout 600 bash $d/demo.sh $W >/tmp/vs.$$.mut.log 2>&1; mut=$?
echo "$(basename $d): demo_on_unchanged=$base build_with_change=$build make_test_with_change=$tst demo_with_change=$mut"
cd /; git -C /repo worktree remove --force $W; rm -f /tmp/vs.$$.*
