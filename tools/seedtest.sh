#!/bin/bash
# tools/seedtest.sh <patch.diff> <check args...>: run a check against a scratch copy of /repo with a seeded patch applied
patch=$(readlink -f $1); shift
M=/tmp/seedtest.$$
rsync -a --exclude=.git --exclude='*.o' --exclude=/chibicc --exclude=/stage2 /repo/ $M/
( cd $M && patch -p1 -s < $patch ) || { echo "patch failed"; rm -rf $M; exit 3; }
VERIF_REPO=$M /verif/bin/check "$@"
rc=$?
rm -rf $M
exit $rc
