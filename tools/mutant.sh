#!/bin/bash
# tools/mutant.sh <name> '<shell command that edits files in $M>' <check args...>
# Runs a check against a scratch copy of /repo with a mutation applied (never touches /repo).
name=$1; edit=$2; shift 2
M=/tmp/mutant.$name.$$
rsync -a --exclude=.git --exclude='*.o' --exclude=/chibicc /repo/ $M/
( cd $M && eval "$edit" ) || { echo "edit failed"; rm -rf $M; exit 3; }
if [ -n "$MUT_MAKETEST" ]; then ( cd $M && timeout 120 make -j16 test >/dev/null 2>&1 && echo "make test: PASS" || echo "make test: FAIL" ); ( cd $M && make clean >/dev/null 2>&1 ); fi
VERIF_REPO=$M /verif/bin/check "$@"
rc=$?
rm -rf $M
exit $rc
