#!/usr/bin/env python3
# C17 -- name tables behave as dictionaries under any history.
#   level 1: /repo/hashmap.c linked unmodified (ASan+UBSan) into histsim.c, seeded histories vs a dictionary
#   level 2: real `chibicc -E` on generated -D/-U/#define/#undef histories with probes, vs a python dict
import concurrent.futures as cf
import json, os, re, shutil, subprocess, sys, time

sys.path.insert(0, os.path.join(os.path.dirname(os.path.abspath(__file__)), "..", "common"))
from vcommon import *

PROP = "C17"
HERE = os.path.dirname(os.path.abspath(__file__))
SAN = ["-fsanitize=address,undefined", "-fno-sanitize-recover=undefined"]


def build_harness(src, out):
    """compile /repo's hashmap.c as is + glue, link with the prebuilt harness object"""
    os.makedirs(out, exist_ok=True)
    hobj = os.path.join(BUILD, "histsim.o")
    if not os.path.exists(hobj) or os.path.getmtime(hobj) < os.path.getmtime(os.path.join(HERE, "histsim.c")):
        os.makedirs(BUILD, exist_ok=True)
        subprocess.check_call(["gcc", "-std=gnu11", "-g", "-O2", "-Wall"] + SAN[:1] + ["-c", os.path.join(HERE, "histsim.c"), "-o", hobj])
    base = ["gcc", "-std=gnu11", "-g", "-O1", "-w"] + SAN + ["-I", src]
    r = subprocess.run(base + ["-c", os.path.join(src, "hashmap.c"), "-o", os.path.join(out, "hashmap.o")],
                       stdout=subprocess.PIPE, stderr=subprocess.STDOUT)
    if r.returncode:
        raise BuildError("hashmap.c does not compile: " + r.stdout.decode(errors="replace")[-2000:])
    internals = True
    r = subprocess.run(base + ["-c", os.path.join(HERE, "glue.c"), "-o", os.path.join(out, "glue.o")],
                       stdout=subprocess.PIPE, stderr=subprocess.STDOUT)
    if r.returncode:
        internals = False
        r = subprocess.run(base + ["-DHS_NO_INTERNALS", "-c", os.path.join(HERE, "glue.c"), "-o", os.path.join(out, "glue.o")],
                           stdout=subprocess.PIPE, stderr=subprocess.STDOUT)
        if r.returncode:
            raise BuildError("glue.c does not compile against chibicc.h: " + r.stdout.decode(errors="replace")[-2000:])
    exe = os.path.join(out, "histsim")
    r = subprocess.run(["gcc"] + SAN + [hobj, os.path.join(out, "hashmap.o"), os.path.join(out, "glue.o"), "-o", exe],
                       stdout=subprocess.PIPE, stderr=subprocess.STDOUT)
    if r.returncode:
        # hashmap.c may have started to use helpers that live in other files of the tree (an arena allocator, say):
        # link the rest of the compiler too, as weak definitions (glue.c keeps error()/format()) and with unused
        # sections discarded so that what only main.c defines is not needed
        first_error = r.stdout.decode(errors="replace")[-1500:]
        extra = []
        for f in sorted(os.listdir(src)):
            if not f.endswith(".c") or f in ("main.c", "hashmap.c"):
                continue
            o = os.path.join(out, "x_" + f[:-2] + ".o")
            c = subprocess.run(base + ["-ffunction-sections", "-fdata-sections", "-c", os.path.join(src, f), "-o", o], stdout=subprocess.PIPE, stderr=subprocess.STDOUT)
            if c.returncode == 0 and subprocess.run(["objcopy", "--weaken", o]).returncode == 0:
                extra.append(o)
        r = subprocess.run(["gcc"] + SAN + ["-Wl,--gc-sections", hobj, os.path.join(out, "hashmap.o"), os.path.join(out, "glue.o")] + extra + ["-o", exe],
                           stdout=subprocess.PIPE, stderr=subprocess.STDOUT)
        if r.returncode:
            raise BuildError("harness does not link: " + first_error)
    return exe, internals


# ------------------------------------------------------------------ level 1
def oneline_to_plan(line):
    ks, _, ops = line.partition(";")
    keys = ks.split(",")[1:]
    out = {"keys": keys, "ops": []}
    for o in ops.split():
        kind = o[0]
        k, a, v = o[1:].split(".")
        out["ops"].append([kind, int(k), int(a), int(v)])
    return out


def plan_to_text(plan):
    s = "keys %d mode 0\n" % len(plan["keys"])
    for i, k in enumerate(plan["keys"]):
        s += "k %d %s\n" % (i, k)
    s += "ops %d\n" % len(plan["ops"])
    for o in plan["ops"]:
        s += "%s %d %d %d\n" % tuple(o)
    return s + "end\n"


def pretty_keys(plan):
    out = []
    for k in plan["keys"]:
        b = bytes.fromhex(k)
        out.append(b.decode("ascii") if all(32 < c < 127 for c in b) else "0x" + k)
    return out


def l1_chunk(exe, master, first, count, maxops, maxkeys):
    p = subprocess.run([exe, "batch", str(master), str(first), str(count), str(maxops), str(maxkeys)],
                       stdout=subprocess.PIPE, stderr=subprocess.DEVNULL)
    return p.returncode, p.stdout.decode(errors="replace")


def l1_replay(exe, plan, sdir):
    path = os.path.join(sdir, "replay.%d.%d.plan" % (os.getpid(), int(sha(json.dumps(plan, sort_keys=True))[:8], 16)))
    with open(path, "w") as f:
        f.write(plan_to_text(plan))
    p = subprocess.run([exe, "replay", path], stdout=subprocess.PIPE, stderr=subprocess.PIPE)
    os.unlink(path)
    out = p.stdout.decode(errors="replace")
    cls, lh = "none", ""
    for l in out.splitlines():
        if l.startswith("R "):
            for w in l.split():
                if w.startswith("class="):
                    cls = w[6:]
                if w.startswith("loghash="):
                    lh = w[8:]
    if p.returncode == 77:
        cls = "sanitizer"
    return cls, lh, out + p.stderr.decode(errors="replace")[-1500:]


def level1(exe, sdir, master, total_runs, maxops, maxkeys, chunk, rep, stats, deadline):
    distinct = set()
    agg = {}
    samples = []
    jobs = []
    with cf.ThreadPoolExecutor(NCPU) as ex:
        first = 0
        while first < total_runs:
            n = min(chunk, total_runs - first)
            jobs.append((first, n, ex.submit(l1_chunk, exe, master, first, n, maxops, maxkeys)))
            first += n
        for first, n, fut in jobs:
            rc, out = fut.result()
            done_s = False
            for l in out.splitlines():
                if l.startswith("H "):
                    if len(distinct) < 2000000:
                        distinct.add(int(l[2:], 16))
                elif l.startswith("S "):
                    done_s = True
                    for kv in l[2:].split():
                        k, _, v = kv.partition("=")
                        if k == "modes":
                            for i, m in enumerate(v.split(",")):
                                agg["mode%d" % i] = agg.get("mode%d" % i, 0) + int(m)
                        elif k in ("max_capacity",):
                            agg[k] = max(agg.get(k, 0), int(v))
                        elif k in ("internals", "families"):
                            agg[k] = int(v)
                        else:
                            agg[k] = agg.get(k, 0) + int(v)
                elif l.startswith("V "):
                    w = l.split(None, 6)
                    seed, cls, nops, lh, mexec, pl = int(w[1]), w[2], int(w[3]), w[4], int(w[5]), w[6]
                    plan = oneline_to_plan(pl)
                    plan.update({"engine": "histsim-l1", "property": PROP, "class": cls, "seed": seed, "loghash": lh,
                                 "original_ops": nops, "minimisation_executions": mexec,
                                 "keys_readable": pretty_keys(plan)})
                    # gate part 2: the minimised plan replays in a fresh process with the same class and log
                    c2, lh2, txt = l1_replay(exe, plan, sdir)
                    if c2 != cls or lh2 != lh:
                        rep.harness_error("level1 seed %d: minimised plan does not replay (%s/%s vs %s/%s)" % (seed, c2, lh2, cls, lh))
                        continue
                    ident = "l1 class=%s ops=%s" % (cls, "".join(o[0] + str(o[1]) for o in plan["ops"]))
                    rp = save_replay(PROP, seed, plan)
                    rep.violation(ident, rp, "hashmap history (seed %d, %d ops minimised to %d in %d executions)\nkeys=%s\nops=%s\n%s" % (
                        seed, nops, len(plan["ops"]), mexec, plan["keys_readable"],
                        " ".join("%s(k%d)" % ({"p": "put", "P": "put2", "d": "del", "D": "del2", "g": "get", "G": "get2"}[o[0]], o[1]) for o in plan["ops"]),
                        txt.strip()))
                elif l.startswith("X "):
                    seed = int(l.split()[1])
                    plan = {"engine": "histsim-l1", "property": PROP, "class": "sanitizer", "seed": seed, "maxops": maxops, "maxkeys": maxkeys}
                    # replay by seed in a fresh process to confirm
                    p = subprocess.run([exe, "run", str(seed), str(maxops), str(maxkeys)], stdout=subprocess.PIPE, stderr=subprocess.PIPE)
                    if p.returncode != 77:
                        rep.harness_error("level1 seed %d: sanitizer report did not replay" % seed)
                    else:
                        plan["report"] = p.stderr.decode(errors="replace")[:3000]
                        rp = save_replay(PROP, seed, plan)
                        rep.violation("l1 class=sanitizer " + plan["report"].split("\n")[0][:120], rp, plan["report"][:1500])
                elif l.startswith("N "):
                    rep.harness_error("level1 seed %s: same seed gave two different logs" % l.split()[1])
            if not done_s:
                # the chunk died (sanitizer exit is 77 and was reported through an X line)
                if rc != 77:
                    rep.harness_error("level1 chunk first=%d died rc=%d" % (first, rc))
                stats["l1_chunks_died"] = stats.get("l1_chunks_died", 0) + 1
    # a few sample plans, written out
    for i in range(3):
        p = subprocess.run([exe, "run", str(mix(master, i)), str(min(maxops, 40)), str(min(maxkeys, 8))], stdout=subprocess.PIPE, stderr=subprocess.DEVNULL)
        txt = p.stdout.decode(errors="replace").split("R class")[0]
        ks = [l.split()[2] for l in txt.splitlines() if l.startswith("k ")]
        ops = [l.split() for l in txt.splitlines() if l and l[0] in "pPdDgG" and l[1] == " "]
        samples.append({"level": 1, "seed": mix(master, i), "keys": pretty_keys({"keys": ks}),
                        "ops": " ".join("%s%s" % (o[0], o[1]) for o in ops[:60])})
    for k, v in agg.items():
        stats["l1_" + k] = stats.get("l1_" + k, 0) + v if k not in ("max_capacity", "internals", "families") else max(stats.get("l1_" + k, 0), v)
    return distinct, samples


def l1_determinism(exe, master, n, rep, stats):
    """n seeds x 2 executions in separate processes, outputs (plan + log hash) must be identical"""
    def one(i):
        s = str(mix(master ^ 0xD37E, i))
        a = subprocess.run([exe, "run", s], stdout=subprocess.PIPE, stderr=subprocess.DEVNULL).stdout
        b = subprocess.run([exe, "run", s], stdout=subprocess.PIPE, stderr=subprocess.DEVNULL).stdout
        return a == b and b"loghash=" in a
    with cf.ThreadPoolExecutor(NCPU) as ex:
        res = list(ex.map(one, range(n)))
    stats["l1_determinism_pairs"] = n
    stats["l1_determinism_mismatches"] = res.count(False)
    if not all(res):
        rep.harness_error("level1: %d of %d seeds did not repeat exactly" % (res.count(False), n))


# ------------------------------------------------------------------ level 2 (through the preprocessor)
PREDEF = ["__STDC__", "__x86_64__", "__linux__", "linux", "unix", "__LP64__", "__SIZEOF_INT__", "__chibicc__",
          "__STDC_VERSION__", "__amd64", "_LP64", "__ELF__", "__SIZE_TYPE__", "__unix__"]
PREDEF_BODY = {"__STDC__": "1", "__x86_64__": "1", "__linux__": "1", "linux": "1", "unix": "1", "__LP64__": "1",
               "__SIZEOF_INT__": "4", "__chibicc__": "1", "__STDC_VERSION__": "201112L", "__amd64": "1", "_LP64": "1",
               "__ELF__": "1", "__SIZE_TYPE__": "unsigned long", "__unix__": "1"}


# handler-backed built-ins: defined from the start; once the user defines them they are ordinary macros
PREDEF_DYNAMIC = ["__LINE__", "__COUNTER__", "__FILE__", "__BASE_FILE__", "__TIMESTAMP__"]


def l2_gen(seed, families, big):
    """returns plan: list of ops; op = [where, kind, name, body]  where in {arg, src}
    kind in {def, fdef, undef, probe_ifdef, probe_ifdefined, probe_expand, probe_call}"""
    r = Rng(seed)
    nnames = r.pick([2, 3, 4, 6, 10, 20, 40]) if not big else r.range(150, 420)
    names = []
    mode = r.below(4)
    if families and mode in (0, 1):
        fam = r.pick(families)
        names = r.sample(fam, min(len(fam), nnames))
    if mode == 1 and families:
        fam2 = r.pick(families)
        names += r.sample(fam2, min(len(fam2), max(0, nnames - len(names))))
    exotic = r.below(5) == 0     # identifiers need not be ASCII: `$` and UTF-8 letters, often sharing an ASCII prefix with another name
    while len(names) < nnames:
        style = r.below(4)
        if exotic and r.below(2):
            stem = r.pick(["a", "ab", "n", "_", "Z9"])
            n = stem + r.pick(["", "$", "$b", "$1", "\u00e9", "\u00e9a", "\u03c0", "$\u00e9", "b$"]) if r.below(4) else r.pick(["$", "$x", "\u03c0", "\u00e9\u00e9"])
        elif style == 0 and not big:
            n = r.pick(PREDEF + PREDEF_DYNAMIC)
        elif style == 1:
            n = "".join(r.pick("ab_") for _ in range(r.range(1, 3)))
        else:
            n = r.pick("mnpqXY_") + str(r.below(30000))
        if n not in names and n not in ("defined",):
            names.append(n)
    ops = []
    uniq = [1000]

    last = {}

    def body(n=None):
        # replacement lists of 0..4 tokens; successive definitions of one name are often token-prefixes or
        # extensions of each other, so "same as before" shortcuts are exercised; a fresh number keeps reads attributable
        uniq[0] += 1
        prev = last.get(n)
        k = r.below(6)
        if prev is not None and k == 0:
            b = (prev + " " + str(uniq[0])).strip()
        elif prev is not None and k == 1 and " " in prev:
            b = prev.rsplit(" ", 1)[0]
        elif prev is not None and k == 2:
            b = prev
        elif k == 3:
            b = "%d + %d" % (uniq[0], uniq[0] + 1)
        elif k == 4 and n is not None and r.below(3) == 0:
            b = ""
        else:
            b = str(uniq[0])
        if n is not None:
            last[n] = b
        return b
    nargs = r.pick([0, 0, 1, 2, 4]) if not big else r.below(3)
    for _ in range(nargs):
        n = r.pick(names)
        k = r.below(4)
        if k == 0:
            ops.append(["arg", "undef", n, "", r.below(2)])
        elif k == 1:
            ops.append(["arg", "def", n, None, r.below(2)])  # -DN  => 1
        elif r.below(5) == 0:
            b = r.pick(["", "%d=%d" % (uniq[0] + 1, uniq[0] + 2), "=%d" % (uniq[0] + 3)])   # -DN=   -DN=1=2   -DN==3
            uniq[0] += 3
            last[n] = b
            ops.append(["arg", "def", n, b, r.below(2)])
        else:
            ops.append(["arg", "def", n, body(n), r.below(2)])
    if r.below(4) == 0:
        for _ in range(r.pick([1, 2, 4])):
            n = r.pick(names)
            if r.below(3) == 0:
                ops.append(["inc", "undef", n, "", r.below(2)])
            else:
                ops.append(["inc", "def", n, body(n), r.below(2)])
    nops = r.pick([3, 5, 8, 12, 20, 40, 80]) if not big else r.range(300, 900)
    wdef, wundef, wprobe = r.pick([(5, 3, 3), (4, 4, 2), (6, 2, 3), (3, 4, 4)])
    recent_undef = []
    for _ in range(nops):
        x = r.below(wdef + wundef + wprobe)
        n = r.pick(names)
        if x < wdef:
            if recent_undef and r.chance(1, 2):
                n = r.pick(recent_undef)
            if r.chance(1, 4):
                # (function-like definitions only in the source: `-D'f(x)=...'` is a gcc extension that chibicc does not
                # implement -- it defines an unreachable object-like macro named "f(x)" -- and the property does not ask for it)
                ops.append(["src", r.pick(["fdef", "fdef", "fdef0", "fdef2", "fdefv", "fdefn"]), n, body(n) or "7", r.below(4)])   # last field: which parameter names
            else:
                ops.append(["src", "def", n, body(n), 0])
        elif x < wdef + wundef:
            if r.below(10) == 0:
                # a directive on a line of its own INSIDE the argument list of a macro call (undefined behaviour in ISO C, accepted
                # by every compiler): the call's text and the target's state afterwards are not predicted -- the compiler must
                # survive it, and every other name must be unaffected
                ops.append(["src", "argdir", n, None if r.below(2) else str(uniq[0] + 700000), r.below(4)])
                continue
            if r.below(8) == 0:
                # #pragma push_macro / pop_macro: saved and restored definitions (undefinedness included) where the compiler
                # implements them, nothing at all where it ignores the pragma -- the harness asks the compiler which it is
                ops.append(["src", r.pick(["push", "push", "pop"]), n, "", 0])
                continue
            if r.below(6) == 0:
                # a directive inside a skipped group changes nothing (last field: which kind of skipped group)
                ops.append(["src", r.pick(["skip_def", "skip_undef"]), n, str(uniq[0] + 500000), r.below(1000)])
                continue
            ops.append(["src", "undef", n, "", 0])
            recent_undef = (recent_undef + [n])[-4:]
        else:
            ops.append(["src", r.pick(["probe_ifdef", "probe_ifdefined", "probe_expand", "probe_call", "probe_ifndef", "probe_ifvalue", "probe_ifpaste", "probe_elif", "probe_pasteexpand"]), n, "", r.below(1000)])
    # closing sweep: every name is probed at the end (subsumes "no stale / lost name")
    for n in names if not big else r.sample(names, 60):
        ops.append(["src", "probe_ifdef", n, "", 0])
        ops.append(["src", "probe_expand", n, "", 0])
    return {"names": names, "ops": ops}


PUSHPOP = [False]   # does the compiler under test implement #pragma push_macro / pop_macro? (set once by probe_pushpop)


def probe_pushpop(cc, sdir):
    f = os.path.join(sdir, "pushpop_probe.c")
    with open(f, "w") as fh:
        fh.write('#define PP_X 1\n#pragma push_macro("PP_X")\n#undef PP_X\n#pragma pop_macro("PP_X")\n#ifdef PP_X\n"SUPPORTED" ;\n#endif\n')
    try:
        p = subprocess.run([cc, "-E", f], stdout=subprocess.PIPE, stderr=subprocess.PIPE, timeout=30)
        PUSHPOP[0] = b"SUPPORTED" in p.stdout
    except Exception:
        PUSHPOP[0] = False
    return PUSHPOP[0]


def l2_huge(seed):
    """the macro table at a size nothing else reaches: 5000 to 30000 names (some of them kilobytes long) defined, half of them
    undefined, a quarter redefined, with samples probed after each phase"""
    r = Rng(seed)
    n = r.pick([5000, 12000, 30000])
    longs = r.pick([0, 0, 300, 4000])
    names = ["hm%d_%d" % (seed % 1000, i) for i in range(n)]
    if longs:
        for i in range(0, n, n // 7):
            names[i] = names[i] + "y" * longs
    ops = []
    for i, nm in enumerate(names):
        ops.append(["src", "def", nm, str(i + 1), 0])
    def sample(k):
        for _ in range(k):
            nm = names[r.below(n)]
            ops.append(["src", r.pick(["probe_ifdef", "probe_expand", "probe_ifvalue"]), nm, "", r.below(1000)])
    sample(60)
    for i in range(0, n, 2):
        ops.append(["src", "undef", names[i], "", 0])
    sample(60)
    for i in range(0, n, 4):
        ops.append(["src", "def", names[i], str(900000 + i), 0])
    for i in range(1, n, 6):
        ops.append(["src", "fdef", names[i], str(800000 + i), r.below(4)])
    sample(120)
    return {"names": names, "ops": ops}


def l2_render(plan):
    """-> (argv_extra, source_text, expected_lines)   model: a python dict, last write wins"""
    model = dict((k, ("obj", v)) for k, v in PREDEF_BODY.items())
    for k in PREDEF_DYNAMIC:
        model[k] = ("dyn", None)   # what they expand to is not modelled; that they are defined, and stop being special once redefined, is
    args, src, exp = [], ["#define CAT_(a,b) a##b", "#define XCAT_(a,b) CAT_(a,b)", "#define ARGDIR_(x) x"], []
    inc = [[], []]   # up to two files given with -include: processed after every -D / -U, in command-line order, before the source
    pid = 0
    stacks = {}
    allops = plan["ops"]
    ordered = [o for o in allops if o[0] == "arg"] + [o for o in allops if o[0] == "inc" and o[4] % 2 == 0] + \
              [o for o in allops if o[0] == "inc" and o[4] % 2 == 1] + [o for o in allops if o[0] == "src"]
    for where, kind, n, b, sep in ordered:
        if where == "inc":
            # the model applies the -include files where the compiler does: after the command-line definitions, file 0 then file 1
            inc[sep % 2].append("#define %s %s" % (n, b) if kind == "def" else "#undef %s" % n)
            if kind == "def":
                model[n] = ("obj", b)
            else:
                model.pop(n, None)
            continue
        FSHAPE = {"fdef": ("(x)", " x", "fn1"), "fdef0": ("()", "", "fn0"), "fdef2": ("(x,y)", " y x", "fn2"), "fdefv": ("(x,...)", " __VA_ARGS__ x", "fnv"), "fdefn": ("(args...)", " args", "fnn")}
        if where == "arg" and kind in FSHAPE:
            ps, tail, tag = FSHAPE[kind]
            args.append("-D%s%s=%s%s" % (n, ps, b, tail))
            model[n] = (tag, b)
            continue
        if where == "arg":
            if kind == "undef":
                args += ["-U", n] if sep else ["-U" + n]
                model.pop(n, None)
            else:
                val = n if b is None else n + "=" + b
                args += ["-D", val] if sep else ["-D" + val]
                model[n] = ("obj", "1" if b is None else b)
            continue
        if kind == "argdir":
            pid += 1
            callee = n if (sep % 2 and model.get(n, ("", ""))[0] == "fn1") else "ARGDIR_"
            d = "#undef %s" % n if b is None else ("#define %s %s" % (n, b) if sep < 2 else "#define %s(q) %s q" % (n, b))
            src.append('"Z" %d %s(\n%s\n7) ;' % (pid, callee, d))
            model[n] = ("unk", None)
            continue
        if kind in ("push", "pop"):
            src.append('#pragma %s_macro("%s")' % (kind, n))
            if PUSHPOP[0]:
                if kind == "push":
                    stacks.setdefault(n, []).append(model.get(n))
                elif stacks.get(n):
                    old = stacks[n].pop()
                    if old is None:
                        model.pop(n, None)
                    else:
                        model[n] = old
            continue
        if kind in ("skip_def", "skip_undef"):
            d = "#define %s %s" % (n, b) if kind == "skip_def" else "#undef %s" % n
            und = "NEVER_DEFINED_%d" % sep
            src.append(["#if 0\n%s\n#endif", "#ifdef %s\n%%s\n#endif" % und, "#if 1\n#else\n%s\n#endif", "#if 0\n#if 1\n%s\n#endif\n#endif",
                        "#if 1\n#elif 1\n%s\n#endif", "#ifndef %s\n#else\n#if 1\n%%s\n#else\n#endif\n#endif" % und,
                        "#if 0\n#elif 0\n%s\n#elif 1\n#else\n%s\n#endif", "#if 0\n#else\n#if 0\n%s\n#endif\n#endif"][sep % 8].replace("%s", d))
            continue
        if kind == "def":
            src.append("#define %s %s" % (n, b))
            model[n] = ("obj", b)
        elif kind in FSHAPE:
            ps, tail, tag = FSHAPE[kind]
            # parameter names change from one definition to the next (x,y / a,b / y,x / p,q); the expansion must not care
            px, py = [("x", "y"), ("a", "b"), ("y", "x"), ("p", "q")][sep % 4]
            va = ["args", "rest", "args", "va"][sep % 4]
            ps = ps.replace("x", "\0").replace("y", py).replace("\0", px).replace("args", va)
            tail = " ".join({"x": px, "y": py, "args": va}.get(t, t) for t in tail.split())
            src.append("#define %s%s %s %s" % (n, ps, b, tail))
            model[n] = (tag, b)
        elif kind == "undef":
            src.append("#undef %s" % n)
            model.pop(n, None)
        elif model.get(n, ("", ""))[0] == "unk":
            continue        # the state of this name is not predicted (see argdir) until it is defined or undefined again
        else:
            pid += 1
            d = n in model
            if kind in ("probe_ifvalue", "probe_ifpaste", "probe_elif"):
                # the name's VALUE in a #if / #elif, spelt directly or pasted together from two halves: only for names
                # that are undefined (0) or object-like with a single number as body
                body = model[n][1] if d and model[n][0] == "obj" else None
                if (d and (body is None or not body.isdigit())) or len(n) < 2:
                    pid -= 1
                    continue
                cut = 1 + sep % (len(n) - 1)
                spelt = n if kind != "probe_ifpaste" else "CAT_(%s,%s)" % (n[:cut], n[cut:])
                # (both halves are identifiers themselves, and neither is a macro: pasting an identifier with a pp-number such
                # as `4__` is another matter -- chibicc rejects `#if CAT_(__LP6,4__)` -- and belongs to macro expansion, not here)
                if kind == "probe_ifpaste" and (not (n[cut:][0].isalpha() or n[cut:][0] == "_") or n[:cut] in model or n[cut:] in model):
                    spelt = n
                truth = bool(d and int(body) != 0)
                if kind == "probe_elif":
                    src.append("#if 0\n#elif %s\n\"T\" %d\n#else\n\"F\" %d\n#endif" % (spelt, pid, pid))
                else:
                    src.append("#if %s\n\"T\" %d\n#else\n\"F\" %d\n#endif" % (spelt, pid, pid))
                exp.append('"%s" %d' % ("T" if truth else "F", pid))
            elif kind in ("probe_ifdef", "probe_ifdefined", "probe_ifndef"):
                if kind == "probe_ifdef":
                    src.append("#ifdef %s" % n)
                elif kind == "probe_ifndef":
                    src.append("#ifndef %s\n\"U\" %d\n#else" % (n, pid))
                else:
                    src.append("#if defined(%s) && defined %s" % (n, n))
                if kind != "probe_ifndef":
                    src.append("\"D\" %d\n#else\n\"U\" %d" % (pid, pid))
                else:
                    src.append("\"D\" %d" % pid)
                src.append("#endif")
                exp.append('"%s" %d' % ("D" if d else "U", pid))
            elif d and model[n][0] == "dyn":
                pid -= 1    # no expansion probe for a built-in that is still built in
            elif kind in ("probe_expand", "probe_pasteexpand"):
                spelt = n
                if kind == "probe_pasteexpand" and len(n) >= 2:
                    # the name comes into being by ## during an expansion and is looked up when the result is rescanned
                    cut = 1 + sep % (len(n) - 1)
                    if (n[cut:][0].isalpha() or n[cut:][0] == "_") and n[:cut] not in model and n[cut:] not in model:
                        spelt = "CAT_(%s,%s)" % (n[:cut], n[cut:])
                src.append('"X" %d %s ;' % (pid, spelt))
                if d and model[n][0] == "obj":
                    e = model[n][1]
                else:
                    e = n   # undefined, or function-like without an argument list: left alone
                exp.append(('"X" %d %s ;' % (pid, e)))
            elif kind == "probe_call":
                # the call is spelt with as many arguments as the current definition takes (anything goes for the others)
                shape = model[n][0] if d else "none"
                call = {"fn0": "()", "fn1": "(7)", "fn2": "(7,8)", "fnv": "(7,8,9)", "fnn": "(7,8)"}.get(shape, "(7)")
                src.append('"C" %d %s%s ;' % (pid, n, call))
                if shape == "fn0":
                    e = model[n][1]
                elif shape == "fn1":
                    e = model[n][1] + " 7"
                elif shape == "fn2":
                    e = model[n][1] + " 8 7"
                elif shape == "fnv":
                    e = model[n][1] + " 8,9 7"
                elif shape == "fnn":
                    e = model[n][1] + " 7,8"
                elif d:
                    e = model[n][1] + call
                else:
                    e = n + call
                exp.append('"C" %d %s ;' % (pid, e))
    return args, "\n".join(src) + "\n", exp, ["\n".join(x) + "\n" if x else None for x in inc]


def norm(line):
    return " ".join(line.replace("(", " ( ").replace(")", " ) ").replace(",", " , ").replace("=", " = ").split())


def pick_cc(cc, k):
    """exploration alternates between the plain build (fast) and the AddressSanitizer build (sees memory errors)"""
    pl = cc + ".plain"
    return pl if (k % 3 and os.path.exists(pl)) else cc


def l2_exec(cc, sdir, wid, plan):
    """returns (class, detail) ; class None when the output equals the model's"""
    args, src, exp, incs = l2_render(plan)
    f = os.path.join(sdir, "l2.%d.c" % wid)
    with open(f, "w", encoding="utf-8") as fh:
        fh.write(src)
    args = list(args)
    for k, t in enumerate(incs):
        if t is not None:
            fi = os.path.join(sdir, "l2.%d.inc%d.h" % (wid, k))
            with open(fi, "w", encoding="utf-8") as fh:
                fh.write(t)
            pos = Rng(len(src) * 7 + k).below(len(args) + 1)   # anywhere among the other options (never inside `-D NAME`)
            while pos > 0 and args[pos - 1] in ("-D", "-U", "-include"):
                pos -= 1
            args[pos:pos] = ["-include", fi]
    # (two -include options keep their relative order: file 0 is inserted first and file 1 never before it)
    if incs[0] is not None and incs[1] is not None:
        i0, i1 = args.index(os.path.join(sdir, "l2.%d.inc0.h" % wid)), args.index(os.path.join(sdir, "l2.%d.inc1.h" % wid))
        if i1 < i0:
            args[i0], args[i1] = args[i1], args[i0]
    try:
        p = subprocess.run([cc, "-E"] + args + [f], stdout=subprocess.PIPE, stderr=subprocess.PIPE, timeout=60)
    except subprocess.TimeoutExpired:
        return "hang", "chibicc -E did not finish within 60 s"
    if p.returncode != 0:
        err = p.stderr.decode(errors="replace")
        cls = "abort" if ("Assertion" in err or "internal error" in err or "AddressSanitizer" in err or p.returncode < 0 or not err.strip()) else "rejected"
        return cls, "exit status %d: %s" % (p.returncode, err[-400:])
    # only probe lines count: what a call with a directive inside its argument list expands to ("Z" lines and whatever they
    # drag along) is not predicted
    got = [norm(l) for l in p.stdout.decode(errors="replace").splitlines() if re.match(r'\s*"[DUTFXC]"', l)]
    want = [norm(l) for l in exp]
    if got == want:
        return None, ""
    for i in range(max(len(got), len(want))):
        g = got[i] if i < len(got) else "<missing>"
        w = want[i] if i < len(want) else "<nothing>"
        if g != w:
            k = "defined-state" if w[:3] in ('"D"', '"U"') else "if-value" if w[:3] in ('"T"', '"F"') else "replacement"
            return k, "probe line %d: compiler says `%s`, dictionary says `%s`" % (i + 1, g, w)
    return "mismatch", "?"


def l2_minimise(cc, sdir, wid, plan, cls):
    n_exec = [0]

    def still(ops):
        n_exec[0] += 1
        c, _ = l2_exec(cc, sdir, wid, {"names": plan["names"], "ops": ops})
        return c == cls
    ops = list(plan["ops"])
    chunk = max(1, len(ops) // 2)
    while chunk >= 1:
        progress = True
        while progress:
            progress = False
            i = 0
            while i + chunk <= len(ops):
                t = ops[:i] + ops[i + chunk:]
                if t and still(t):
                    ops = t
                    progress = True
                else:
                    i += chunk
        chunk //= 2
    # simplify: function-like -> object-like, separate-arg -> joined
    for i in range(len(ops)):
        t = [list(o) for o in ops]
        if t[i][1].startswith("fdef"):
            t[i][1] = "def"
        t[i][4] = 0
        if still(t):
            ops = t
    used = []
    for o in ops:
        if o[2] not in used:
            used.append(o[2])
    return {"names": used, "ops": ops}, n_exec[0]


def l2_worker(cc, sdir, wid, master, start, step, total, families, big_every, deadline):
    res = {"runs": 0, "ops": 0, "viol": [], "hashes": set(), "nontrivial": 0, "big": 0, "argops": 0, "redef_after_undef": 0, "samples": []}
    i = start
    while i < total and time.monotonic() < deadline:
        seed = mix(master ^ 0x1E7E12, i)
        big = big_every and (i % big_every == big_every - 1)
        plan = l2_huge(seed) if i % 397 == 211 else l2_gen(seed, families, big)
        cls, detail = l2_exec(pick_cc(cc, i), sdir, wid, plan)
        res["runs"] += 1
        res["ops"] += len(plan["ops"])
        res["big"] += 1 if big else 0
        res["argops"] += sum(1 for o in plan["ops"] if o[0] == "arg")
        und = set()
        nt = False
        for o in plan["ops"]:
            if o[1] == "undef":
                und.add(o[2])
            elif (o[1] == "def" or o[1].startswith("fdef")) and und and (o[2] in und or len(und) > 0):
                if o[2] in und:
                    res["redef_after_undef"] += 1
                nt = True
        if nt:
            res["nontrivial"] += 1
            res["hashes"].add(sha(json.dumps(plan["ops"])))
        if i < 2 and not big:
            a, s, e, _ = l2_render(plan)
            res["samples"].append({"level": 2, "seed": seed, "argv": a, "source_head": s.splitlines()[:14], "probes": len(e)})
        if cls:
            c2, _ = l2_exec(cc, sdir, wid, plan)  # gate 1: same plan again, same class
            if c2 != cls:
                res["viol"].append(("nondeterministic", seed, plan, "classes %s / %s" % (cls, c2), 0))
            elif len(res["viol"]) < 3:
                mp, nx = l2_minimise(cc, sdir, wid, plan, cls)
                c3, d3 = l2_exec(cc, sdir, wid, mp)
                res["viol"].append((cls, seed, mp, d3 if c3 == cls else detail, nx))
            else:
                res["viol"].append((cls, seed, None, detail, 0))
        i += step
    return res


def level2(cc, sdir, master, total, families, big_every, rep, stats, seconds):
    deadline = time.monotonic() + seconds
    nw = NCPU
    stats["l2_push_pop_macro_implemented_by_the_compiler"] = probe_pushpop(cc, sdir)
    # separate worker *processes*: forking chibicc from 16 threads of one python serialises on the GIL
    import multiprocessing as mp
    with mp.get_context("fork").Pool(nw) as pool:
        results = pool.starmap(l2_worker, [(cc, sdir, w, master, w, nw, total, families, big_every, deadline) for w in range(nw)])
    distinct = set()
    samples = []
    for r in results:
        distinct |= r["hashes"]
        samples += r["samples"]
        for k in ("runs", "ops", "nontrivial", "big", "argops", "redef_after_undef"):
            stats["l2_" + k] = stats.get("l2_" + k, 0) + r[k]
        for cls, seed, plan, detail, nx in r["viol"]:
            if cls == "nondeterministic":
                rep.harness_error("level2 seed %d: %s" % (seed, detail))
                continue
            if plan is None:
                stats["l2_unminimised_violations"] = stats.get("l2_unminimised_violations", 0) + 1
                continue
            a, s, e, incs = l2_render(plan)
            s = "".join("/* -include file %d */\n%s" % (k, t) for k, t in enumerate(incs) if t) + s
            rp = save_replay(PROP, seed, {"engine": "histsim-l2", "property": PROP, "class": cls, "seed": seed,
                                          "names": plan["names"], "ops": plan["ops"], "argv": a, "source": s, "expected": e,
                                          "minimisation_executions": nx})
            ident = "l2 class=%s ops=%s" % (cls, ",".join("%s:%s" % (o[1], plan["names"].index(o[2]) if o[2] in plan["names"] else o[2]) for o in plan["ops"]))
            rep.violation(ident, rp, "macro history (seed %d), minimised in %d executions:\nchibicc -E %s\n%s%s" % (seed, nx, " ".join(a), s, detail))
    return distinct, samples[:2]


def l2_replay(cc, sdir, plan):
    probe_pushpop(cc, sdir)
    return l2_exec(cc, sdir, 999, plan)


# ------------------------------------------------------------------ level 3: scope tables (identifiers, tags) through compiled programs
def l3_gen(seed, families):
    funcs = []
    """a C program built from a history of scope operations; the reference model is a stack of dicts.
    Every declaration carries a unique small number; every probe compares the compiler's binding with the model's."""
    r = Rng(seed)
    big = r.below(8) == 0
    nnames = r.pick([3, 5, 8, 16, 30]) if not big else r.range(120, 420)
    names = []
    if families and r.below(2):
        fam = r.pick(families)
        names = r.sample(fam, min(len(fam), nnames))
    while len(names) < nnames:
        n = r.pick("vwxyzQ") + str(r.below(30000))
        if n not in names:
            names.append(n)
    # file scope + function body + nested blocks
    ordinary = [{}]   # typedef / variable / enum constant share one name space
    tags = [{}]
    lines = ["long bad;", "int line;", "#define ID_(x) x"]
    alias = {}
    for k, n in enumerate(names):
        if r.below(2):
            alias[n] = "AL_%d" % k
            lines.append("#define AL_%d %s" % (k, n))
    depth = 0

    def ref(n):
        # a reference is spelt directly, through an object-like alias macro, or through a function-like macro
        c = r.below(4)
        if c == 0 and n in alias:
            return alias[n]
        if c == 1:
            return "ID_(%s)" % n
        return n
    probes = 0
    uniq = [0]

    def val():
        uniq[0] = uniq[0] % 119 + 1
        return uniq[0]

    def lookup(stack, n):
        for d in reversed(stack):
            if n in d:
                return d[n]
        return None

    def probe(n):
        nonlocal probes
        b = lookup(ordinary, n)
        if b:
            kind, v = b
            e = "sizeof(%s)" % ref(n) if kind == "typedef" else ref(n)
            # (no ++ / op= here: they declare hidden temporaries, and a probe must not disturb the tables it probes)
            lines.append("  line = line ? line : ((%s) != %d ? __LINE__ : 0);" % (e, v))
            probes += 1
        t = lookup(tags, n)
        if t and t["size"]:     # (an incomplete tag has no size to ask for)
            lines.append("  line = line ? line : (sizeof(struct %s) != %d ? __LINE__ : 0);" % (ref(n), t["size"]))
            probes += 1
        # a pointer declared while its tag was incomplete sees the completion -- of that tag, not of a namesake in another scope
        live = [(k[1:], e) for d in tags for k, e in d.items() if k[0] == "*" and e["size"]]
        if live and r.below(3) == 0:
            pn, e = r.pick(live)
            lines.append("  line = line ? line : (sizeof(*%s) != %d ? __LINE__ : 0);" % (pn, e["size"]))
            probes += 1

    nptr = [0]
    filevars = {}       # file-scope variables with external linkage: name -> value
    # arrays declared twice in ONE scope: `extern char N[];` first, the size later (same scope, any number of other
    # declarations in between). The second declaration must win: sizeof(N) is the size it gave.
    anames = ["ar%d_%d" % (seed % 1000, k) for k in range(r.pick([1, 2, 4]))]
    asize = dict((a, 3 + (k * 7 + seed) % 23) for k, a in enumerate(anames))

    def declare_arr(at_file_scope):
        a = r.pick(anames)
        ind = "" if at_file_scope else "  "
        vis = lookup(ordinary, a)
        if vis is None:
            if r.below(3):
                lines.append("%sextern char %s[];" % (ind, a))
                ordinary[-1][a] = ("arrinc", None)
            else:
                lines.append("%sextern char %s[%d];" % (ind, a, asize[a]))
                ordinary[-1][a] = ("arr", asize[a])
        elif vis[0] == "arrinc" and a in ordinary[-1]:
            lines.append("%s%schar %s[%d];" % (ind, "" if at_file_scope and r.below(2) else "extern ", a, asize[a]))
            ordinary[-1][a] = ("arr", asize[a])

    def probe_arr():
        nonlocal probes
        a = r.pick(anames)
        vis = lookup(ordinary, a)
        if vis and vis[0] == "arr":
            lines.append("  line = line ? line : (sizeof(%s) != %d ? __LINE__ : 0);" % (a, vis[1]))
            probes += 1

    def declare(n, at_file_scope):
        if r.below(8) == 0:
            return declare_arr(at_file_scope)
        k = r.pick([0, 1, 2, 3, 0, 1, 2, 3, 4, 5])
        if k < 3 and n in ordinary[-1]:
            k = 3
        if k == 3 and n in tags[-1] and tags[-1][n]["size"]:
            return
        ind = "" if at_file_scope else "  "
        if k == 4:
            # `struct N;` declares a tag of this scope unless the scope has one already.
            # (Not generated while an OUTER scope's tag N is visible: C says the declaration then hides it with a new incomplete
            # type; chibicc takes it as a mention of the outer tag. That is a rule of the language about what `struct N;` means,
            # not the discipline of the table -- the table does what it is asked -- so this property does not decide it.)
            if n not in tags[-1] and lookup(tags, n) is not None:
                return
            lines.append("%sstruct %s;" % (ind, n))
            if n not in tags[-1]:
                tags[-1][n] = {"size": None}
            return
        if k == 5:
            # a mention without a body refers to the visible tag, else declares an incomplete one here
            e = lookup(tags, n)
            if e is None:
                e = tags[-1][n] = {"size": None}
            nptr[0] += 1
            pn = "pp%d_%d" % (seed % 1000, nptr[0])
            lines.append("%sstruct %s *%s%s;" % (ind, ref(n), pn, "" if at_file_scope else " = 0"))
            tags[-1]["*" + pn] = e
            return
        v = val()
        if k == 0:
            lines.append("%stypedef char %s[%d];" % (ind, n, v))
            ordinary[-1][n] = ("typedef", v)
        elif k == 1:
            st_ = r.below(4) == 0
            lines.append("%s%sint %s = %d;" % (ind, "static " if st_ else "", n, v))
            if at_file_scope and not st_:
                filevars[n] = v
            ordinary[-1][n] = ("var", v)
        elif k == 2:
            outer = lookup(ordinary, n)
            if outer and not at_file_scope and r.below(2) and n not in ordinary[-1]:
                # the enumerator's own value mentions the name it is about to hide: that is still the OUTER one
                okind, ov = outer
                if okind == "enum" and ov < 100:
                    lines.append("%senum { %s = %s + 1 };" % (ind, n, ref(n)))
                    v = ov + 1
                elif okind == "typedef":
                    lines.append("%senum { %s = sizeof(%s) + 1 };" % (ind, n, ref(n)))
                    v = ov + 1
                elif okind == "var":
                    lines.append("%senum { %s = sizeof(%s) + %d };" % (ind, n, ref(n), v))
                    v = 4 + v
                else:
                    lines.append("%senum { %s = %d };" % (ind, n, v))
            else:
                lines.append("%senum { %s = %d };" % (ind, n, v))
            ordinary[-1][n] = ("enum", v)
        else:
            lines.append("%sstruct %s { char a[%d]; };" % (ind, n, v))
            if n in tags[-1]:
                tags[-1][n]["size"] = v      # completes the incomplete tag of THIS scope (and whatever points to it)
            else:
                tags[-1][n] = {"size": v}    # a new type, even if an outer scope has an incomplete namesake
    nfile = r.range(0, nnames)
    for n in r.sample(names, nfile):
        declare(n, True)
    # one object declared several times at file scope -- tentative definitions, extern declarations and at most one
    # definition with an initializer, in any order, some of them after the last function: exactly one object must come out,
    # holding the initializer if there is one. (Several tentative definitions and nothing else are not generated: the pinned
    # chibicc drops all of them, which is a matter of the language's tentative-definition rule, not of a name table.)
    tent_post, tent_probe = [], []
    for k in range(r.pick([0, 0, 1, 2, 4])):
        tn = "tn%d_%d" % (seed % 1000, k)
        st = "static " if r.below(4) == 0 else ""
        v = val()
        if r.below(3):
            decls = ["%sint %s = %d;" % (st, tn, v)] + [r.pick(["%sint %s;" % (st, tn), "extern int %s;" % tn] if not st else ["static int %s;" % tn]) for _ in range(r.range(1, 3))]
            expect = v
        else:
            decls = ["%sint %s;" % (st, tn)] + (["extern int %s;" % tn for _ in range(r.range(0, 2))] if not st else [])
            expect = 0
        order = r.sample(decls, len(decls))
        if st and not order[0].startswith("static"):
            order.sort(key=lambda d: not d.startswith("static"))
        lines.append(order[0])
        for d in order[1:]:
            (lines if r.below(2) else tent_post).append(d)
        tent_probe.append((tn, expect))
    # functions are names too: prototypes before and after, definitions after their first use, block-scope declarations,
    # static / static inline helpers that are reachable only through other helpers (whatever decides which functions are emitted
    # must follow the chain), each returning its own number plus its callee's
    fn_post, fn_probe, fn_blockdecl = [], [], []
    nfn = r.pick([0, 0, 1, 2, 4])
    fsum = 0
    for k in range(nfn):
        fnm = "hf%d_%d" % (seed % 1000, k)
        attr = r.pick(["", "", "static ", "static inline ", "static inline "])
        v = val()
        fsum = v + (fsum if k else 0)
        callee = "hf%d_%d()" % (seed % 1000, k - 1) if k else "0"
        definition = "%sint %s(void) { return %d + %s; }" % (attr, fnm, v, callee)
        proto = "%sint %s(void);" % (attr.replace("inline ", "") if r.below(2) else attr, fnm)
        where = r.below(3)
        if k and where == 0:
            where = 1       # (a callee is defined or declared before its caller: the chain is built bottom-up)
        if where == 0:
            lines.append(definition)                 # plain: defined before use
        elif where == 1:
            lines.append(proto)                      # declared, defined after main
            if r.below(2):
                lines.append(proto)                  # ... twice
            fn_post.append(definition)
        else:
            lines.append(definition)
            fn_post.append(proto)                    # a redundant declaration after the definition
        if not attr and r.below(2):
            fn_blockdecl.append("  int %s(void);" % fnm)
        fn_probe.append((fnm, fsum))
        if r.below(3) == 0 and "inline" not in attr:
            # (not for `static inline` helpers: the pinned chibicc credits a file-scope reference to whatever function was defined
            # last and drops the helper with it -- a reachability bug of its own, outside the name tables)
            # referenced from a file-scope initializer only (a pointer, or a table after an unused static function): whatever
            # decides which static functions are emitted must see that reference, wherever the definition stands
            if r.below(2):
                lines.append("static int unused%d_%d(void) { return 0; }" % (seed % 1000, k))
            tabname = "ft%d_%d" % (seed % 1000, k)
            lines.append("%sint (*%s[])(void) = { %s, %s };" % (r.pick(["static ", ""]), tabname, fnm, fnm))
            fn_probe.append(("%s[%d]" % (tabname, r.below(2)), fsum))
    labels = set()
    kinds = []      # 'block' or 'for' (a for statement opens two scopes: its declaration and its body)
    decoys = [0]

    def close_one():
        k = kinds.pop()
        lines.append("  }")
        ordinary.pop()
        tags.pop()
        if k == "for":
            ordinary.pop()
            tags.pop()
        for n in r.sample(names, min(3, len(names))):
            probe(n)   # what was shadowed must be visible again

    def body(nops):
        nonlocal probes
        for _ in range(nops):
            x = r.below(15)
            if x == 13:
                # labels are a name table per function: the same label name in several functions, jumped to forwards and
                # backwards (and, from the decoys, labels nobody jumps to)
                n = r.pick(names)
                if (n, len(funcs)) not in labels:
                    labels.add((n, len(funcs)))
                    v = val()
                    if r.below(2):
                        lines.append("  { int gl = 0; goto %s; gl = 50; %s: gl += %d; line = line ? line : (gl != %d ? __LINE__ : 0); }" % (n, n, v, v))
                    else:
                        lines.append("  { int gl = 0; %s: gl += %d; if (gl < %d) goto %s; line = line ? line : (gl != %d ? __LINE__ : 0); }" % (n, v, 2 * v, n, 2 * v))
                    probes += 1
                continue
            if x == 14:
                # `extern int N;` in a block: the file-scope object, whatever hides it at the moment (a parameter, an automatic or
                # a static local, a typedef ...)
                cands = [n for n in filevars if n not in ordinary[-1] and len(ordinary) > 1]
                if cands:
                    n = r.pick(cands)
                    lines.append("  extern int %s;" % n)
                    ordinary[-1][n] = ("var", filevars[n])
                continue
            if x < 4:
                declare(r.pick(names), False)
            elif x < 7:
                probe(r.pick(names))
            elif x < 8 and len(kinds) < 5:
                lines.append("  {")
                ordinary.append({})
                tags.append({})
                kinds.append("block")
            elif x < 9 and kinds:
                close_one()
            elif x < 10 and len(kinds) < 5:
                # for-scope: the loop variable lives in a scope of its own around the body; the body runs once
                n, v = r.pick(names), val()
                lines.append("  for (int %s = %d; %s != %d; %s++) {" % (n, v, n, v + 1, n))
                ordinary.append({n: ("var", v)})
                tags.append({})
                ordinary.append({})
                tags.append({})
                kinds.append("for")
            elif x < 12:
                # names in other name spaces must not disturb the tables: members, labels, an enum inside a struct
                n = r.pick(names)
                decoys[0] += 1
                c = r.below(3)
                if c == 0:
                    lines.append("  struct D%d_%d { int %s; char %s_; } d%d_%d; d%d_%d.%s = 1;" % (seed % 1000, decoys[0], n, n, seed % 1000, decoys[0], seed % 1000, decoys[0], n))
                elif c == 1 and (n, len(funcs)) not in labels:
                    labels.add((n, len(funcs)))
                    lines.append("  %s: ;" % n)
                elif n not in ordinary[-1]:
                    v = val()
                    lines.append("  struct { enum { %s = %d } e; int x; } e%d_%d; e%d_%d.x = %s;" % (n, v, seed % 1000, decoys[0], seed % 1000, decoys[0], n))
                    ordinary[-1][n] = ("enum", v)
            else:
                probe(r.pick(names))
                probe_arr()

    funcs = []
    # helper functions: parameters live in the function's scope and hide file-scope names only inside it
    for k in range(r.below(3)):
        ps = r.sample(names, min(len(names), r.range(1, 3)))
        vals = [val() for _ in ps]
        lines.append("void pf_%d(%s) {" % (k, ", ".join("int %s" % p for p in ps)))
        ordinary.append(dict((p, ("var", v)) for p, v in zip(ps, vals)))
        tags.append({})
        body(r.pick([3, 8, 20]))
        while kinds:
            close_one()
        for p in ps:
            probe(p)
        lines.append("}")
        ordinary.pop()
        tags.pop()
        funcs.append("pf_%d(%s);" % (k, ", ".join(str(v) for v in vals)))
    lines.append("int main(void) {")
    ordinary.append({})
    tags.append({})
    for f in funcs:
        lines.append("  " + f)
    for tn, expect in tent_probe:
        lines.append("  line = line ? line : ((%s) != %d ? __LINE__ : 0);" % (tn, expect))
        probes += 1
    # string literals are (anonymous) objects: literals of one type and length that agree up to an embedded NUL are still
    # different objects with different bytes
    for k in range(r.pick([0, 0, 1, 2])):
        pre = "".join(r.pick("abcxyz") for _ in range(r.range(1, 4)))
        t1, t2 = r.pick("ABCDEFGH"), r.pick("IJKLMNOP")
        pfx = r.pick(["", "", "L", "u", "U"])
        lines.append("  { const %s *sa = %s\"%s\\0%s.x\", *sb = %s\"%s\\0%s.x\"; line = line ? line : ((sa[%d] != '%s' || sb[%d] != '%s' || sa[0] != sb[0]) ? __LINE__ : 0); }"
                     % ({"": "char", "L": "int", "u": "unsigned short", "U": "unsigned"}[pfx], pfx, pre, t1, pfx, pre, t2, len(pre) + 1, t1, len(pre) + 1, t2))
        probes += 1
    # members are names as well: a struct with 4 to 300 direct members and anonymous struct / union members among them, every
    # member written and read back by name (an index over member names must find the nested ones where they really are)
    if r.below(3) == 0:
        nm = r.pick([4, 29, 31, 32, 33, 40, 64, 300])
        at1, at2 = r.below(nm), r.below(nm)
        mem = []
        for k in range(nm):
            if k == at1:
                mem.append("struct { int q; char r; };")
            if k == at2:
                mem.append("union { int u; char c; };")
            mem.append("int m%d;" % k)
        sname = "BS%d" % (seed % 1000)
        lines.append("  struct %s { %s } bs;" % (sname, " ".join(mem)))
        lines.append("  for (int k = 0; k < (int)sizeof bs; k++) ((char *)&bs)[k] = 0;")
        lines.append("  bs.q = 1001; bs.r = 7; bs.u = 2002;")
        for k in range(nm):
            lines.append("  bs.m%d = %d;" % (k, k + 1))
        lines.append("  line = line ? line : ((bs.q != 1001 || bs.r != 7 || bs.u != 2002 || bs.c != (char)2002) ? __LINE__ : 0);")
        for k in sorted(set([0, nm - 1, at1 % nm, at2 % nm, r.below(nm), r.below(nm)])):
            lines.append("  line = line ? line : (bs.m%d != %d ? __LINE__ : 0);" % (k, k + 1))
        probes += 8
    lines += fn_blockdecl
    if fn_probe:
        # only the top of the chain is called (sometimes one more): everything below must have been emitted for it
        for fnm, expect in [fn_probe[-1]] + ([r.pick(fn_probe)] if r.below(2) else []):
            lines.append("  line = line ? line : (%s() != %d ? __LINE__ : 0);" % (fnm, expect))
            probes += 1
    nops = r.pick([10, 30, 80]) if not big else r.range(400, 1200)
    body(nops)
    for n in (names if not big else r.sample(names, 80)):
        probe(n)
    while kinds:
        close_one()
    lines.append("  return line ? (line %% 250) + 1 : 0;" .replace("%%", "%"))
    lines.append("}")
    lines += tent_post + fn_post
    return "\n".join(lines) + "\n", probes, big


def l3_scale(seed):
    """the scope tables far beyond what the ordinary programs reach: hundreds to thousands of nested scopes each re-declaring the
    same few names, or one scope with thousands to tens of thousands of names (many rehashes while inner scopes come and go),
    or identifiers of kilobytes. The model is trivial; the sizes are the point."""
    r = Rng(seed)
    k = r.below(3)
    L = ["long line;"]
    probes = 0
    if k == 0:
        depth = r.pick([64, 300, 1000, 2500])
        L.append("int main(void) {")
        L.append("  int x = 0; typedef char T[1]; struct S { char a[1]; };")
        what = []
        for d in range(1, depth + 1):
            w = r.below(4)
            what.append(w)
            v = d % 100 + 1
            L.append("  {" + [" int x = %d;" % v, " typedef char T[%d];" % v, " struct S { char a[%d]; };" % v, " enum { x = %d };" % v][w])
        # on the way out every level sees what it (or the nearest enclosing level of that kind) declared
        cur = {0: 0, 1: 1, 2: 1}
        vals = []
        st = {"x": [0], "T": [1], "S": [1]}
        for d, w in enumerate(what, 1):
            v = d % 100 + 1
            st[{0: "x", 1: "T", 2: "S", 3: "x"}[w]].append(v)
            vals.append((w, v))
        for d in range(depth, 0, -1):
            if d % max(1, depth // 40) == 0 or d == depth:
                L.append("  line = line ? line : ((x != %d || sizeof(T) != %d || sizeof(struct S) != %d) ? __LINE__ : 0);" % (st["x"][-1], st["T"][-1], st["S"][-1]))
                probes += 3
            w, v = vals[d - 1]
            st[{0: "x", 1: "T", 2: "S", 3: "x"}[w]].pop()
            L.append("  }")
        L.append("  line = line ? line : ((x != 0 || sizeof(T) != 1 || sizeof(struct S) != 1) ? __LINE__ : 0);")
        L.append("  return line ? (line % 250) + 1 : 0;")
        L.append("}")
    elif k == 1:
        n = r.pick([3000, 12000, 40000])
        L.append("int main(void) {")
        for i in range(n):
            L.append("  int v%d = %d;" % (i, i % 1000))
        pick = [r.below(n) for _ in range(60)]
        L.append("  {")
        sh = pick[:20]
        for i in sh:
            L.append("    int v%d = %d;" % (i, i % 1000 + 7)) if ("    int v%d = %d;" % (i, i % 1000 + 7)) not in L else None
        for i in pick:
            L.append("    line = line ? line : (v%d != %d ? __LINE__ : 0);" % (i, i % 1000 + (7 if i in sh else 0)))
        L.append("  }")
        for i in pick:
            L.append("  line = line ? line : (v%d != %d ? __LINE__ : 0);" % (i, i % 1000))
        probes += 120
        L.append("  return line ? (line % 250) + 1 : 0;")
        L.append("}")
    else:
        ln = r.pick([300, 5000, 70000])
        names = ["q%s%d" % ("z" * ln, i) for i in range(6)] + ["q%s" % ("z" * (ln + 1)), "q%s" % ("z" * (ln - 1))]
        for i, nm in enumerate(names):
            L.append("int %s = %d;" % (nm, i + 1))
        L.append("int main(void) {")
        L.append("  int %s = 50;" % names[2])
        for i, nm in enumerate(names):
            L.append("  line = line ? line : (%s != %d ? __LINE__ : 0);" % (nm, 50 if i == 2 else i + 1))
        probes += len(names)
        L.append("  return line ? (line % 250) + 1 : 0;")
        L.append("}")
    return "\n".join(L) + "\n", probes, True


def l3_l4_worker(cc, sdir, wid, master, start, step, families, deadline):
    res = {"l3_runs": 0, "l3_probes": 0, "l3_big": 0, "l4_runs": 0, "l4_headers": 0, "viol": [], "samples": [], "hashes": set()}
    i = start
    wd = os.path.join(sdir, "l3.%d" % wid)
    os.makedirs(wd, exist_ok=True)
    while time.monotonic() < deadline:
        seed = mix(master ^ 0x5C09E, i)
        i += step
        if i % 5 == 4:
            # ---- level 4: include-once tables (#pragma once and include guards), many headers, repeated inclusion
            r = Rng(seed)
            nh = r.pick([3, 10, 40, 150])
            hdrs = []
            for k in range(nh):
                name = "h_%s%d.h" % (r.pick("abc"), r.below(5000))
                if name in hdrs:
                    continue
                body = '"H" %d ;\n' % len(hdrs)   # numbered by position in hdrs (duplicates were skipped)
                hdrs.append(name)
                style = r.below(3)
                with open(os.path.join(wd, name), "w") as f:
                    if style == 0:
                        f.write("#pragma once\n" + body)
                    elif style == 1:
                        g = "G_%s" % name.replace(".", "_").upper()
                        f.write("#ifndef %s\n#define %s\n%s#endif\n" % (g, g, body))
                    else:
                        f.write(body)   # no protection: appears once per inclusion
            # a history of inclusions and of #undef of include guards: a guarded header is skipped exactly while its
            # guard is defined (model: one flag per guard), a #pragma once header after its first inclusion, an
            # unprotected one never
            kinds = {}
            for k, name in enumerate(hdrs):
                body = open(os.path.join(wd, name)).read()
                kinds[k] = "once" if body.startswith("#pragma") else "guard" if body.startswith("#ifndef") else "plain"
            ops = []
            for _ in range(r.range(1, 3)):
                o = list(range(len(hdrs)))
                r.shuffle(o)
                for k in o:
                    ops.append(("inc", k))
                    if r.below(3) == 0:
                        ops.append(("inc", r.pick(o)))
                    if r.below(4) == 0:
                        g = r.pick(o)
                        if kinds[g] == "guard":
                            ops.append(("undef", g))
            src_lines, want = [], {}
            seen_once, guard_def = set(), set()
            for op, k in ops:
                if op == "undef":
                    src_lines.append("#undef G_%s" % hdrs[k].replace(".", "_").upper())
                    guard_def.discard(k)
                    continue
                src_lines.append('#include "%s"' % hdrs[k])
                if kinds[k] == "once":
                    if k not in seen_once:
                        want[k] = want.get(k, 0) + 1
                    seen_once.add(k)
                elif kinds[k] == "guard":
                    if k not in guard_def:
                        want[k] = want.get(k, 0) + 1
                    guard_def.add(k)
                else:
                    want[k] = want.get(k, 0) + 1
            # the same header NAME in two directories: a quoted include is looked up next to the including file first
            twins = r.below(2)
            if twins:
                for dn in ("tw0", "tw1", "twi"):
                    os.makedirs(os.path.join(wd, dn), exist_ok=True)
                base_id = 90000
                open(os.path.join(wd, "tw0", "same.h"), "w").write('"H" %d ;\n' % base_id)
                open(os.path.join(wd, "tw1", "same.h"), "w").write('"H" %d ;\n' % (base_id + 1))
                open(os.path.join(wd, "twi", "same.h"), "w").write('"H" %d ;\n' % (base_id + 2))
                open(os.path.join(wd, "tw0", "use.h"), "w").write('#include "same.h"\n')
                open(os.path.join(wd, "tw1", "use.h"), "w").write('#include "same.h"\n')
                open(os.path.join(wd, "twi", "viaI.h"), "w").write('#include "same.h"\n')
                seq = [("tw0/use.h", base_id), ("tw1/use.h", base_id + 1), ("twi/viaI.h", base_id + 2), ("tw0/use.h", base_id), ("tw1/use.h", base_id + 1)]
                r.shuffle(seq)
                for path, hid in seq[:r.range(2, 5)]:
                    src_lines.insert(r.below(len(src_lines) + 1), '#include "%s"' % path)
                    want[hid] = want.get(hid, 0) + 1
            src = "\n".join(src_lines) + "\n"
            with open(os.path.join(wd, "inc.c"), "w") as f:
                f.write(src)
            p = subprocess.run([pick_cc(cc, i), "-E", "-I" + os.path.join(wd, "twi"), os.path.join(wd, "inc.c")], stdout=subprocess.PIPE, stderr=subprocess.PIPE)
            res["l4_twin_headers"] = res.get("l4_twin_headers", 0) + twins
            res["l4_runs"] += 1
            res["l4_headers"] += len(hdrs)
            res["l4_guard_undefs"] = res.get("l4_guard_undefs", 0) + sum(1 for op, _ in ops if op == "undef")
            got = {}
            for l in p.stdout.decode(errors="replace").splitlines():
                w = l.split()
                if len(w) >= 2 and w[0] == '"H"':
                    got[int(w[1])] = got.get(int(w[1]), 0) + 1
            if p.returncode != 0 or got != want:
                bad = [k for k in sorted(set(want) | set(got)) if got.get(k, 0) != want.get(k, 0)][:3]
                res["viol"].append(("l4 class=include-once", seed, {"engine": "histsim-l4", "seed": seed, "headers": dict((h, open(os.path.join(wd, h)).read()) for h in hdrs), "source": src,
                                                                     "expected_counts": dict((hdrs[k], v) for k, v in want.items() if k < len(hdrs))},
                                    "chibicc -E exit %d; headers expanded a wrong number of times: %s\n%s" % (
                                        p.returncode, ", ".join("%s x%d (expected x%d)" % (hdrs[k] if k < len(hdrs) else "same.h#%d" % k, got.get(k, 0), want.get(k, 0)) for k in bad), p.stderr.decode(errors="replace")[-300:])))
            for h in hdrs:
                os.unlink(os.path.join(wd, h))
            continue
        src, probes, big = l3_scale(seed) if (i // step) % 23 == 7 else l3_gen(seed, families)
        cfile = os.path.join(wd, "p.c")
        with open(cfile, "w") as f:
            f.write(src)
        exe = os.path.join(wd, "p.exe")
        p = subprocess.run([pick_cc(cc, i), "-c", cfile, "-o", os.path.join(wd, "p.o")], stdout=subprocess.PIPE, stderr=subprocess.PIPE)
        res["l3_runs"] += 1
        res["l3_probes"] += probes
        res["l3_big"] += 1 if big else 0
        res["hashes"].add(sha(src))
        if len(res["samples"]) < 1 and not big:
            res["samples"].append({"level": 3, "seed": seed, "program_head": src.splitlines()[:16], "probes": probes})
        cls, detail = None, ""
        if p.returncode != 0:
            err = p.stderr.decode(errors="replace")
            cls = "abort" if ("Assertion" in err or "internal error" in err or "AddressSanitizer" in err or not err.strip()) else "scope-lookup-rejected"
            detail = "chibicc -c exit %d: %s" % (p.returncode, err[-400:])
        else:
            q = subprocess.run(["gcc", "-o", exe, os.path.join(wd, "p.o")], stdout=subprocess.PIPE, stderr=subprocess.STDOUT)
            if q.returncode != 0:
                cls, detail = "scope-link", q.stdout.decode(errors="replace")[-300:]
            else:
                try:
                    x = subprocess.run([exe], timeout=20)
                    if x.returncode != 0:
                        cls, detail = "scope-wrong-binding", "a name resolved to the wrong declaration (first failing probe near line %d +250k)" % (x.returncode - 1)
                except subprocess.TimeoutExpired:
                    cls, detail = "scope-hang", "program did not finish"
        if cls and len(res["viol"]) < 3:
            # guard against a wrong model: the reference compiler must accept the program and agree with the model
            g = subprocess.run(["gcc", "-w", "-o", exe + ".ref", cfile], stdout=subprocess.PIPE, stderr=subprocess.STDOUT)
            gx = subprocess.run([exe + ".ref"]).returncode if g.returncode == 0 else -1
            if gx != 0:
                res["viol"].append(("HARNESS", seed, {"engine": "histsim-l3", "seed": seed, "source": src},
                                    "level 3 generator/model problem: gcc %s for the same program" % ("rejects it" if g.returncode else "also reports a wrong binding (exit %d)" % gx)))
            else:
                res["viol"].append(("l3 class=" + cls, seed, {"engine": "histsim-l3", "seed": seed, "source": src}, detail + "\n" + "\n".join(src.splitlines()[:40])))
    shutil.rmtree(wd, ignore_errors=True)
    return res


def level34(cc, sdir, master, families, rep, stats, seconds):
    import multiprocessing as mp
    deadline = time.monotonic() + seconds
    with mp.get_context("fork").Pool(NCPU) as pool:
        results = pool.starmap(l3_l4_worker, [(cc, sdir, w, master, w, NCPU, families, deadline) for w in range(NCPU)])
    hashes, samples = set(), []
    for r in results:
        for k in ("l3_runs", "l3_probes", "l3_big", "l4_runs", "l4_headers", "l4_guard_undefs", "l4_twin_headers"):
            stats[k] = stats.get(k, 0) + r.get(k, 0)
        hashes |= r["hashes"]
        samples += r["samples"]
        for ident, seed, plan, text in r["viol"]:
            if ident == "HARNESS":
                rep.harness_error("seed %d: %s" % (seed, text))
                continue
            plan["property"] = PROP
            rp = save_replay(PROP, seed, plan)
            rep.violation(ident + " id=%s" % sha(plan["source"])[:6], rp, text)
    return hashes, samples[:1]


def l34_replay(cc, sdir, plan):
    wd = os.path.join(sdir, "l34replay")
    os.makedirs(wd, exist_ok=True)
    if plan["engine"] == "histsim-l4":
        for h, body in plan["headers"].items():
            open(os.path.join(wd, h), "w").write(body)
        open(os.path.join(wd, "inc.c"), "w").write(plan["source"])
        p = subprocess.run([cc, "-E", os.path.join(wd, "inc.c")], stdout=subprocess.PIPE, stderr=subprocess.PIPE)
        got = {}
        for l in p.stdout.decode(errors="replace").splitlines():
            w = l.split()
            if len(w) >= 2 and w[0] == '"H"':
                got[int(w[1])] = got.get(int(w[1]), 0) + 1
        want = {}
        for hname, cnt in plan.get("expected_counts", {}).items():
            want[int(plan["headers"][hname].split('"H" ')[1].split()[0])] = cnt
        return ("include-once", "got %s want %s" % (got, want)) if (p.returncode != 0 or got != want) else (None, "")
    open(os.path.join(wd, "p.c"), "w").write(plan["source"])
    p = subprocess.run([cc, "-c", os.path.join(wd, "p.c"), "-o", os.path.join(wd, "p.o")], stdout=subprocess.PIPE, stderr=subprocess.PIPE)
    if p.returncode != 0:
        return "rejected", p.stderr.decode(errors="replace")[-400:]
    q = subprocess.run(["gcc", "-o", os.path.join(wd, "p.exe"), os.path.join(wd, "p.o")], stdout=subprocess.PIPE, stderr=subprocess.STDOUT)
    if q.returncode != 0:
        return "link", q.stdout.decode(errors="replace")[-300:]
    x = subprocess.run([os.path.join(wd, "p.exe")])
    return ("scope-wrong-binding", "exit %d" % x.returncode) if x.returncode else (None, "")


# ------------------------------------------------------------------ main
def main(argv):
    tier = tier_from_args(argv)
    t0 = now()
    master = master_seed()
    rep = Reporter(PROP)
    stats = {}
    sdir = scratch("verif-c17")
    try:
        # levels 2-4 run the compiler itself; it is built with AddressSanitizer so that a table entry used after it was
        # freed, or read past its end, stops the run instead of going unnoticed (falls back to the plain build if that fails)
        os.environ["ASAN_OPTIONS"] = "detect_leaks=0:strict_memcmp=0:exitcode=77:allocator_may_return_null=1"
        try:
            cc = build_chibicc(os.path.join(sdir, "src"), extra_cflags="-fsanitize=address -fno-omit-frame-pointer")
            stats["compiler_under_test_built_with"] = "AddressSanitizer for every third history of levels 2-4 and for every re-execution (gates, minimisation, replay); the plain build for the rest"
            shutil.copy(build_chibicc(os.path.join(sdir, "src_plain")), cc + ".plain")
        except BuildError:
            shutil.rmtree(os.path.join(sdir, "src"), ignore_errors=True)
            cc = build_chibicc(os.path.join(sdir, "src"))
            stats["compiler_under_test_built_with"] = "plain (the AddressSanitizer build failed)"
        exe, internals = build_harness(os.path.join(sdir, "src"), os.path.join(sdir, "h"))
    except BuildError as e:
        print("HARNESS-ERROR property=%s cannot build: %s" % (PROP, e))
        return 2

    if "--replay" in argv:
        plan = json.load(open(argv[argv.index("--replay") + 1]))
        if plan.get("engine") in ("histsim-l3", "histsim-l4"):
            cls, detail = l34_replay(cc, sdir, plan)
            print("replay: class=%s %s" % (cls, detail))
            if cls:
                print("VIOLATION property=%s replay=%s" % (PROP, argv[argv.index("--replay") + 1]))
            return 1 if cls else 0
        if plan.get("engine") == "histsim-l2":
            cls, detail = l2_replay(cc, sdir, plan)
            print("replay: class=%s %s" % (cls, detail))
            if cls:
                print("VIOLATION property=%s replay=%s" % (PROP, argv[argv.index("--replay") + 1]))
            return 1 if cls else 0
        if "ops" in plan:
            cls, lh, txt = l1_replay(exe, plan, sdir)
        else:
            p = subprocess.run([exe, "run", str(plan["seed"]), str(plan.get("maxops", 400)), str(plan.get("maxkeys", 40))], stdout=subprocess.PIPE, stderr=subprocess.PIPE)
            cls, lh, txt = ("sanitizer" if p.returncode == 77 else "ok"), "", p.stderr.decode(errors="replace")
        print("replay: class=%s loghash=%s\n%s" % (cls, lh, txt))
        if cls not in ("ok", "none"):
            print("VIOLATION property=%s replay=%s" % (PROP, argv[argv.index("--replay") + 1]))
            return 1
        return 0

    rep.clean_replays()
    # /repo's own fixed history first: the harness must agree with the suite on it
    p = subprocess.run([exe, "selftest"], stdout=subprocess.PIPE, stderr=subprocess.PIPE)
    if p.returncode != 0 or b"OK" not in p.stdout:
        rp = save_replay(PROP, 0, {"engine": "histsim-l1", "property": PROP, "class": "selftest", "cmd": "histsim selftest"})
        rep.violation("l1 class=selftest", rp, "hashmap_test() fails under ASan/UBSan:\n" + p.stderr.decode(errors="replace")[-1500:])

    fam = []
    p = subprocess.run([exe, "families", "1024", "40"], stdout=subprocess.PIPE, stderr=subprocess.DEVNULL)
    for l in p.stdout.decode().splitlines():
        if l.startswith("F "):
            fam.append(l.split()[2:])

    if tier == "quick":
        l1_runs, l1_big, l2_total, l2_secs, det = 480000, 320, 40000, 25, 200
    else:
        l1_runs, l1_big, l2_total, l2_secs, det = 12000000, 16000, 3000000, 420, 1000
    d1, s1 = level1(exe, sdir, master, l1_runs, 400, 40, 2000 if tier == "quick" else 10000, rep, stats, None)
    # long histories over large key universes: growth through several doublings with tombstones alive
    d1b, _ = level1(exe, sdir, master ^ 0xB16, l1_big, 6000, 1024, 10 if tier == "quick" else 100, rep, stats, None)
    l1_determinism(exe, master, det, rep, stats)
    d2, s2 = level2(cc, sdir, master, l2_total, fam, 40, rep, stats, l2_secs)
    d3, s3 = level34(cc, sdir, master, fam, rep, stats, 12 if tier == "quick" else 240)

    evals = stats.get("l1_runs", 0) + stats.get("l2_runs", 0) + stats.get("l3_runs", 0) + stats.get("l4_runs", 0)
    distinct = len(d1) + len(d1b) + len(d2) + len(d3)
    wall = now() - t0
    coverage = {
        "evaluations": evals,
        "distinct_nontrivial": distinct,
        "rule": "level 1: one evaluation = one seeded put/get/delete history (4..400 ops over 2..40 keys, plus long ones up to 6000 ops over 96 keys) "
                "executed on /repo's hashmap.c with every key of the universe compared with the dictionary model after every op; "
                "level 2: one evaluation = one generated -D/-U/#define/#undef history run through the real `chibicc -E` and compared probe by probe with a dict; "
                "level 3: one evaluation = one generated program whose typedefs, variables, enum constants and struct tags are declared, shadowed and probed across nested scopes "
                "(model: a stack of dicts), compiled by chibicc, linked and run; level 4: one evaluation = one file including up to 150 headers (#pragma once / guards / unprotected) repeatedly. "
                "Non-trivial (level 1): the history re-inserts a key after deleting it, or a rehash happened while tombstones were alive; "
                "(level 2): a definition follows an #undef/-U. Distinct = distinct hash of the op sequence (keys included); level-1 hashes are kept for the first 2,000,000 only.",
        "samples": s1 + s2 + s3,
        "runs_per_hour": int(evals / wall * 3600) if wall > 0 else 0,
        "simulated_time": "not applicable: no clock, timer or deadline exists in this component; progress is counted in operations",
        "operations_executed": stats.get("l1_ops", 0) + stats.get("l2_ops", 0),
        "fault_kinds_fired": {
            "colliding_key_family_runs(mode1-3)": stats.get("l1_mode1", 0) + stats.get("l1_mode2", 0) + stats.get("l1_mode3", 0),
            "prefix_slice_key_runs(mode4)": stats.get("l1_mode4", 0),
            "puts_with_tombstones_in_table": stats.get("l1_puts_with_tombstones", 0),
            "reinserts_after_delete": stats.get("l1_reinserts_after_delete", 0),
            "rehashes": stats.get("l1_rehashes", 0),
            "rehashes_with_live_tombstones": stats.get("l1_rehash_with_tombstones", 0),
            "max_table_capacity_reached": stats.get("l1_max_capacity", 0),
            "l2_command_line_ops": stats.get("l2_argops", 0),
            "l2_redefinitions_after_undef": stats.get("l2_redef_after_undef", 0),
            "l2_long_histories(>=300 ops, table growth in cc1)": stats.get("l2_big", 0),
            "l3_scope_programs(compiled, linked, run)": stats.get("l3_runs", 0),
            "l3_scope_probes": stats.get("l3_probes", 0),
            "l3_programs_with_120..420_names": stats.get("l3_big", 0),
            "l4_include_once_files": stats.get("l4_runs", 0),
            "l4_headers_included": stats.get("l4_headers", 0),
            "l4_include_guards_undefined_between_inclusions": stats.get("l4_guard_undefs", 0),
            "l4_files_with_same_named_headers_in_several_directories": stats.get("l4_twin_headers", 0),
        },
        "components": {"real": ["/repo/hashmap.c (unmodified, ASan+UBSan)", "level 2: whole chibicc driver + cc1 preprocessor built from the working tree"],
                       "stub": ["level 1: error()/format() (error() reports an abort to the harness)"],
                       "scheduler": "degenerate: one client; this property has no concurrency, clock or I/O (DESIGN.md section 6)"},
        "internals_visible": bool(internals),
        "stats": stats,
        "exhaustive": False,
    }
    rc = rep.finish()
    write_evidence(PROP, tier, master, "exploration", coverage,
                   ["keys passed to the table stay alive and unmodified (API contract)",
                    "values are non-NULL (the API cannot tell a NULL value from absence)",
                    "levels 2-4 reach the macro, scope (identifier and tag), #pragma-once and include-guard tables through the compiler; the keyword table is fixed and is covered through level 1 only",
                    "sampled, not exhaustive: a clean batch is evidence, not proof"],
                   wall, len(rep.new))
    print("C17 %s: %d evaluations (%d level-1 histories, %d level-2 files), %d distinct non-trivial, %d violation(s), %.1fs" % (
        tier, evals, stats.get("l1_runs", 0), stats.get("l2_runs", 0), distinct, len(rep.new), wall))
    return rc


if __name__ == "__main__":
    sys.exit(main(sys.argv[1:]))
