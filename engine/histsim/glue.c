// Glue between the harness and /repo's hashmap.c (which is compiled unmodified).
// This file includes chibicc.h so that it follows the declared API; the harness itself
// only sees the hs_* functions below. error()/format() are what hashmap.c needs from the
// rest of the compiler; here error() reports "the compiler aborted" to the harness.
#include "chibicc.h"

extern void hs_abort_hook(const char *what) __attribute__((noreturn));

void error(char *fmt, ...) {
  (void)fmt;
  hs_abort_hook("error");
}

char *format(char *fmt, ...) {
  char *buf;
  size_t buflen;
  FILE *out = open_memstream(&buf, &buflen);
  va_list ap;
  va_start(ap, fmt);
  vfprintf(out, fmt, ap);
  va_end(ap);
  fclose(out);
  return buf;
}

void *hs_new(void) { return calloc(1, sizeof(HashMap)); }
void hs_put(void *m, char *k, void *v) { hashmap_put(m, k, v); }
void hs_put2(void *m, char *k, int n, void *v) { hashmap_put2(m, k, n, v); }
void *hs_get(void *m, char *k) { return hashmap_get(m, k); }
void *hs_get2(void *m, char *k, int n) { return hashmap_get2(m, k, n); }
void hs_del(void *m, char *k) { hashmap_delete(m, k); }
void hs_del2(void *m, char *k, int n) { hashmap_delete2(m, k, n); }
void hs_selftest(void) { hashmap_test(); }

// Optional: uses the struct layout published in chibicc.h. Only used to *aim* the
// workload (colliding key families) and for reach probes, never by the oracle.
#ifndef HS_NO_INTERNALS
int hs_have_internals(void) { return 1; }
int hs_capacity(void *m) { return ((HashMap *)m)->capacity; }
int hs_used(void *m) { return ((HashMap *)m)->used; }
// Only the HashMap header, which hs_new() allocated, is released. The bucket array belongs to
// hashmap.c, which never frees and may allocate it any way it likes (an arena, for instance).
void hs_dispose(void *m) { free(m); }

// bucket index a key lands in, in an empty table of the given capacity
int hs_home_bucket(char *key, int len, int cap) {
  static HashMap pm;
  static void *mine; // the array this function allocated itself (hashmap.c may have replaced pm.buckets by its own)
  if (pm.capacity != cap || pm.buckets != mine) {
    free(mine);
    mine = pm.buckets = calloc(cap, sizeof(HashEntry));
    pm.capacity = cap;
  }
  pm.used = 0;
  hashmap_put2(&pm, key, len, (void *)1);
  int idx = -1;
  for (int i = 0; i < pm.capacity; i++)
    if (pm.buckets[i].key) {
      idx = i;
      memset(&pm.buckets[i], 0, sizeof(HashEntry));
      break;
    }
  if (pm.capacity != cap)
    return -1;
  return idx;
}

// number of tombstones and live keys (reach probe)
void hs_census(void *m, int *live, int *tomb) {
  HashMap *map = m;
  *live = *tomb = 0;
  for (int i = 0; i < map->capacity; i++) {
    if (map->buckets[i].key == (void *)-1)
      ++*tomb;
    else if (map->buckets[i].key)
      ++*live;
  }
}
#else
int hs_have_internals(void) { return 0; }
int hs_capacity(void *m) { return 0; }
int hs_used(void *m) { return 0; }
void hs_dispose(void *m) { free(m); }
int hs_home_bucket(char *key, int len, int cap) { return -1; }
void hs_census(void *m, int *live, int *tomb) { *live = *tomb = 0; }
#endif
