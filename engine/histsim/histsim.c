// histsim level 1: seeded operation histories against /repo's hashmap.c (linked unmodified,
// ASan+UBSan) checked after every step against a trivial dictionary model.
//
//   histsim batch <master> <first> <count> [maxops] [maxkeys]   many runs, prints V/X/S lines
//   histsim run <seed> [maxops] [maxkeys]                       one run, prints plan + verdict
//   histsim replay <planfile>                                   executes a plan file
//   histsim families <cap> <n>                                  identifier families colliding at cap
//   histsim selftest                                            /repo's own hashmap_test()
//
// One integer decides a run: every choice below is drawn from one splitmix64 stream.
#define _GNU_SOURCE
#include <setjmp.h>
#include <signal.h>
#include <stdint.h>
#include <stdio.h>
#include <stdlib.h>
#include <string.h>
#include <unistd.h>

extern void *hs_new(void);
extern void hs_put(void *, char *, void *);
extern void hs_put2(void *, char *, int, void *);
extern void *hs_get(void *, char *);
extern void *hs_get2(void *, char *, int);
extern void hs_del(void *, char *);
extern void hs_del2(void *, char *, int);
extern void hs_selftest(void);
extern int hs_have_internals(void);
extern int hs_capacity(void *);
extern int hs_used(void *);
extern void hs_dispose(void *);
extern int hs_home_bucket(char *, int, int);
extern void hs_census(void *, int *, int *);

#define MAXKEYS 1024
#define MAXOPS 6000
#define MAXKLEN 24

typedef struct {
  unsigned char b[MAXKLEN];
  int len;
  int has_nul;
} Key;

typedef struct {
  char kind; // p P put/put2, d D delete/delete2, g G get/get2
  short key;
  char alias; // 0,2: NUL-terminated copies; 1: exact-size slice without terminator
  int val;
} Op;

typedef struct {
  int nkeys;
  Key keys[MAXKEYS];
  int nops;
  Op ops[MAXOPS];
  int genmode;
} Plan;

enum { OK = 0, V_STALE, V_LOST, V_WRONG, V_ABORT, V_SIGNAL };
static const char *cname[] = {"ok", "stale-key-found", "live-key-lost", "wrong-value", "abort", "crash-signal"};

// ------------------------------------------------------------------ rng
static uint64_t rs;
static uint64_t rnd(void) {
  uint64_t z = (rs += 0x9E3779B97F4A7C15ull);
  z = (z ^ (z >> 30)) * 0xBF58476D1CE4E5B9ull;
  z = (z ^ (z >> 27)) * 0x94D049BB133111EBull;
  return z ^ (z >> 31);
}
static int below(int n) { return n > 0 ? (int)(rnd() % (uint64_t)n) : 0; }
static uint64_t sm64(uint64_t x) {
  x += 0x9E3779B97F4A7C15ull;
  uint64_t z = x;
  z = (z ^ (z >> 30)) * 0xBF58476D1CE4E5B9ull;
  z = (z ^ (z >> 27)) * 0x94D049BB133111EBull;
  return z ^ (z >> 31);
}
static uint64_t mixseed(uint64_t master, uint64_t i) { return sm64(sm64(master) ^ (i * 0xD6E8FEB86659FD93ull)); }

// ------------------------------------------------------------------ abort capture
static sigjmp_buf jb;
static volatile int armed;
static volatile const char *abort_what;
static uint64_t cur_seed;

void hs_abort_hook(const char *what) {
  abort_what = what;
  if (armed)
    siglongjmp(jb, V_ABORT);
  fprintf(stderr, "abort hook outside run: %s\n", what);
  _exit(3);
}

static void on_sig(int sig) {
  if (armed) {
    abort_what = sig == SIGABRT ? "SIGABRT(assert)" : sig == SIGSEGV ? "SIGSEGV" : sig == SIGFPE ? "SIGFPE" : "signal";
    siglongjmp(jb, sig == SIGABRT ? V_ABORT : V_SIGNAL);
  }
  _exit(4);
}

extern void __sanitizer_set_death_callback(void (*)(void));
static void on_san_death(void) {
  // a sanitizer report is a violation of "never aborts / memory safe"; tell the driver which seed
  printf("X %llu sanitizer\n", (unsigned long long)cur_seed);
  fflush(stdout);
}
__attribute__((used)) const char *__asan_default_options(void) {
  return "exitcode=77:detect_leaks=0:allocator_may_return_null=1:handle_abort=0:handle_segv=0:handle_sigfpe=0";
}
__attribute__((used)) const char *__ubsan_default_options(void) { return "halt_on_error=1:print_stacktrace=0"; }

// ------------------------------------------------------------------ execution
typedef struct {
  int cls;
  int failop;
  int failkey;
  uint64_t loghash;
  // reach probes
  int rehashes, rehash_with_tombs, reinserts_after_delete, max_cap, puts_with_tombs;
  char detail[160];
} Result;

static void hmix(uint64_t *h, uint64_t v) { *h = (*h ^ v) * 0x100000001b3ull; }

static Result execute(const Plan *p) {
  Result r;
  memset(&r, 0, sizeof r);
  r.loghash = 0xcbf29ce484222325ull;
  r.failop = -1;
  r.failkey = -1;

  // key storage: three aliases per key. Never freed before the map is disposed (the
  // API stores the caller's pointer, keys must stay alive and unmodified).
  static char *al[MAXKEYS][3];
  for (int k = 0; k < p->nkeys; k++) {
    int n = p->keys[k].len;
    al[k][0] = malloc(n + 1);
    memcpy(al[k][0], p->keys[k].b, n);
    al[k][0][n] = 0;
    al[k][1] = malloc(n ? n : 1); // exact size: any read past keylen is an ASan report
    memcpy(al[k][1], p->keys[k].b, n);
    al[k][2] = malloc(n + 1);
    memcpy(al[k][2], p->keys[k].b, n);
    al[k][2][n] = 0;
  }
  static long model[MAXKEYS]; // 0 = absent, else value
  static char was_deleted[MAXKEYS];
  memset(model, 0, sizeof model);
  memset(was_deleted, 0, sizeof was_deleted);

  void *volatile map = NULL;
  volatile int i = 0;
  armed = 1;
  int j = sigsetjmp(jb, 1);
  if (j) {
    armed = 0;
    r.cls = j;
    r.failop = i;
    snprintf(r.detail, sizeof r.detail, "%s during op %d", (const char *)abort_what, i);
    goto out;
  }
  map = hs_new();
  int internals = hs_have_internals();
  int lastcap = 0;
  for (i = 0; i < p->nops; i++) {
    const Op *o = &p->ops[i];
    int k = o->key;
    const Key *key = &p->keys[k];
    int n = key->len;
    int a = o->alias;
    char kind = o->kind;
    if (key->has_nul || a == 1) { // strlen API impossible: use the explicit-length form
      if (kind == 'p') kind = 'P';
      if (kind == 'd') kind = 'D';
      if (kind == 'g') kind = 'G';
    }
    int live = 0, tomb = 0;
    if (internals && (kind == 'p' || kind == 'P')) {
      hs_census(map, &live, &tomb);
      lastcap = hs_capacity(map);
    }
    switch (kind) {
    case 'p': hs_put(map, al[k][a], (void *)(long)o->val); break;
    case 'P': hs_put2(map, al[k][a], n, (void *)(long)o->val); break;
    case 'd': hs_del(map, al[k][a]); break;
    case 'D': hs_del2(map, al[k][a], n); break;
    case 'g':
    case 'G': {
      void *v = kind == 'g' ? hs_get(map, al[k][a]) : hs_get2(map, al[k][a], n);
      hmix(&r.loghash, (uint64_t)(long)v);
      break;
    }
    }
    if (kind == 'p' || kind == 'P') {
      if (!model[k] && was_deleted[k])
        r.reinserts_after_delete++;
      if (tomb)
        r.puts_with_tombs++;
      model[k] = o->val;
      if (internals) {
        int c = hs_capacity(map);
        if (c > r.max_cap) r.max_cap = c;
        if (lastcap && (c != lastcap || hs_used(map) < live + tomb)) {
          r.rehashes++;
          if (tomb) r.rehash_with_tombs++;
        }
      }
    } else if (kind == 'd' || kind == 'D') {
      if (model[k]) was_deleted[k] = 1;
      model[k] = 0;
    }
    // oracle: after every step the table answers like the dictionary for every key of the universe
    // (large universes: the touched key, 24 keys chosen by a fixed function of the step, and a
    // full sweep every 97 steps and after the last one)
    int sweep = p->nkeys <= 128 || i % 97 == 0 || i == p->nops - 1;
    int nq = sweep ? p->nkeys : 25;
    for (int qi = 0; qi < nq; qi++) {
      int q = sweep ? qi : qi == 0 ? k : (int)(((long)i * 7919 + (long)qi * 104729) % p->nkeys);
      int qa = (i + q) % 3;
      void *v;
      if (p->keys[q].has_nul || qa == 1)
        v = hs_get2(map, al[q][qa], p->keys[q].len);
      else if ((i ^ q) & 1)
        v = hs_get(map, al[q][qa]);
      else
        v = hs_get2(map, al[q][qa], p->keys[q].len);
      hmix(&r.loghash, (uint64_t)(long)v);
      long want = model[q];
      if ((long)v != want) {
        r.cls = !want ? V_STALE : !v ? V_LOST : V_WRONG;
        r.failop = i;
        r.failkey = q;
        snprintf(r.detail, sizeof r.detail, "after op %d (%c key %d): get(key %d) = %ld, dictionary says %ld", i, o->kind, k, q,
                 (long)v, want);
        armed = 0;
        goto out;
      }
    }
  }
  armed = 0;
out:
  if (map && r.cls != V_ABORT && r.cls != V_SIGNAL)
    hs_dispose(map);
  for (int k = 0; k < p->nkeys; k++)
    for (int a = 0; a < 3; a++)
      free(al[k][a]);
  return r;
}

// ------------------------------------------------------------------ key families
#define NCAND 24000
#define FAMCAP 1024
static short cand_bucket[NCAND];
static int fam_head[FAMCAP], fam_next[NCAND];
static int families_ready;

static int cand_name(int i, char *out) { return sprintf(out, "m%d", i); }

static void build_families(void) {
  if (families_ready || !hs_have_internals())
    return;
  for (int b = 0; b < FAMCAP; b++) fam_head[b] = -1;
  armed = 1;
  if (sigsetjmp(jb, 1)) { armed = 0; return; }
  for (int i = NCAND - 1; i >= 0; i--) {
    char nm[16];
    int n = cand_name(i, nm);
    int b = hs_home_bucket(nm, n, FAMCAP);
    if (b < 0 || b >= FAMCAP) { armed = 0; return; }
    cand_bucket[i] = b;
    fam_next[i] = fam_head[b];
    fam_head[b] = i;
  }
  armed = 0;
  families_ready = 1;
}

// ------------------------------------------------------------------ generation
static int key_equal(const Key *a, const Key *b) { return a->len == b->len && !memcmp(a->b, b->b, a->len); }

static int add_key(Plan *p, const unsigned char *b, int len) {
  Key k;
  memset(&k, 0, sizeof k);
  if (len < 1 || len > MAXKLEN) return 0;
  memcpy(k.b, b, len);
  k.len = len;
  k.has_nul = memchr(b, 0, len) != NULL;
  for (int i = 0; i < p->nkeys; i++)
    if (key_equal(&p->keys[i], &k)) return 0;
  if (p->nkeys >= MAXKEYS) return 0;
  p->keys[p->nkeys++] = k;
  return 1;
}

static void gen(Plan *p, uint64_t seed, int maxops, int maxkeys) {
  rs = seed;
  memset(p, 0, sizeof *p);
  if (maxkeys > MAXKEYS) maxkeys = MAXKEYS;
  if (maxops > MAXOPS) maxops = MAXOPS;
  int szc = below(10);
  int U = szc < 4 ? 2 + below(7) : szc < 8 ? 8 + below(13) : 20 + below(maxkeys > 20 ? maxkeys - 19 : 1);
  if (U > maxkeys) U = maxkeys;
  int mode = below(6);
  if (!families_ready && (mode == 1 || mode == 2)) mode = 0;
  p->genmode = mode;
  int guard = 0;
  if (mode == 1 || mode == 2 || mode == 3) {
    // colliding identifiers: same home bucket modulo FAMCAP (hence modulo every smaller power
    // of two), or a window of adjacent buckets so probe paths overlap without being equal
    int window = mode == 1 ? 1 : 1 + below(4);
    int b0 = below(FAMCAP);
    int nfam = mode == 3 ? U / 2 : U;
    while (p->nkeys < nfam && guard++ < 4000 && families_ready) {
      int b = (b0 + below(window)) % FAMCAP;
      int c = fam_head[b], skip = below(12);
      while (c >= 0 && skip-- > 0) c = fam_next[c];
      if (c < 0) continue;
      char nm[16];
      int n = cand_name(c, nm);
      add_key(p, (unsigned char *)nm, n);
    }
  }
  if (mode == 4) {
    // prefix chains: "a", "ab", "abc" ... slices of one buffer; and keys differing only in the last byte
    unsigned char buf[MAXKLEN];
    for (int i = 0; i < MAXKLEN; i++) buf[i] = "abcxyz_019"[below(10)];
    while (p->nkeys < U && guard++ < 4000) {
      int off = below(4), len = 1 + below(MAXKLEN - off);
      unsigned char t[MAXKLEN];
      memcpy(t, buf + off, len);
      if (below(4) == 0) t[len - 1] ^= 1 + below(3);
      add_key(p, t, len);
    }
  }
  while (p->nkeys < U && guard++ < 8000) {
    unsigned char t[MAXKLEN];
    int style = below(8);
    int len;
    if (style == 0) { // binary key, may contain NUL: only usable through the explicit-length API
      len = 1 + below(8);
      for (int i = 0; i < len; i++) t[i] = (unsigned char)below(256);
    } else if (style < 4) { // short identifiers over a tiny alphabet: many near-equal keys
      len = 1 + below(3);
      for (int i = 0; i < len; i++) t[i] = "ab_"[below(3)];
    } else {
      len = 1 + below(12);
      for (int i = 0; i < len; i++) t[i] = "abcdefghijklmnopqrstuvwxyzABCXYZ_0123456789"[below(43)];
    }
    add_key(p, t, len);
  }
  U = p->nkeys;

  int lc = below(10);
  int nops = lc < 5 ? 4 + below(37) : lc < 9 ? 40 + below(361) : 400 + below(maxops > 400 ? maxops - 399 : 1);
  if (nops > maxops) nops = maxops;
  // swarm: operation mix per run
  static const int mixes[][3] = {{6, 3, 1}, {5, 5, 0}, {8, 1, 1}, {4, 5, 1}, {3, 3, 4}, {10, 2, 0}};
  const int *w = mixes[below(6)];
  int wsum = w[0] + w[1] + w[2];
  int reinsert_bias = below(4); // 0: none; else probability (bias/4) of re-putting the most recently deleted keys
  int churn = below(3) == 0;    // delete/insert the same few keys over and over
  int recent[8], nrecent = 0;
  char present[MAXKEYS];
  memset(present, 0, sizeof present);
  int allow2 = below(4) != 0;
  for (int i = 0; i < nops; i++) {
    Op o;
    memset(&o, 0, sizeof o);
    int x = below(wsum);
    int k = churn ? below(U < 4 ? U : 4 + below(U - 3)) : below(U);
    if (x < w[0]) {
      o.kind = 'p';
      if (reinsert_bias && nrecent && below(4) < reinsert_bias) k = recent[below(nrecent)];
      present[k] = 1;
    } else if (x < w[0] + w[1]) {
      o.kind = 'd';
      if (below(3)) { // prefer a key that is present
        for (int t = 0; t < 4 && !present[k]; t++) k = below(U);
      }
      if (present[k]) {
        if (nrecent < 8) recent[nrecent++] = k;
        else recent[below(8)] = k;
      }
      present[k] = 0;
    } else {
      o.kind = 'g';
    }
    o.key = k;
    o.alias = below(3);
    if (allow2 && below(2)) o.kind -= 32; // explicit-length form
    o.val = i + 1;                       // unique per op: every read is attributable
    p->ops[p->nops++] = o;
  }
}

// ------------------------------------------------------------------ plan text
static void print_plan(FILE *f, const Plan *p) {
  fprintf(f, "keys %d mode %d\n", p->nkeys, p->genmode);
  for (int i = 0; i < p->nkeys; i++) {
    fprintf(f, "k %d ", i);
    for (int j = 0; j < p->keys[i].len; j++) fprintf(f, "%02x", p->keys[i].b[j]);
    fprintf(f, "\n");
  }
  fprintf(f, "ops %d\n", p->nops);
  for (int i = 0; i < p->nops; i++)
    fprintf(f, "%c %d %d %d\n", p->ops[i].kind, p->ops[i].key, p->ops[i].alias, p->ops[i].val);
  fprintf(f, "end\n");
}

static int read_plan(FILE *f, Plan *p) {
  memset(p, 0, sizeof *p);
  char line[256];
  int nk = 0, no = 0;
  while (fgets(line, sizeof line, f)) {
    if (!strncmp(line, "keys ", 5)) sscanf(line, "keys %d mode %d", &nk, &p->genmode);
    else if (line[0] == 'k' && line[1] == ' ') {
      int idx;
      char hex[128];
      if (sscanf(line, "k %d %127s", &idx, hex) != 2 || idx != p->nkeys || idx >= MAXKEYS) return -1;
      Key *k = &p->keys[p->nkeys++];
      k->len = strlen(hex) / 2;
      if (k->len > MAXKLEN) return -1;
      for (int j = 0; j < k->len; j++) {
        unsigned v;
        sscanf(hex + 2 * j, "%2x", &v);
        k->b[j] = v;
      }
      k->has_nul = memchr(k->b, 0, k->len) != NULL;
    } else if (!strncmp(line, "ops ", 4)) sscanf(line, "ops %d", &no);
    else if (!strncmp(line, "end", 3)) break;
    else if (strchr("pPdDgG", line[0]) && line[1] == ' ') {
      int k, a, v;
      if (sscanf(line + 2, "%d %d %d", &k, &a, &v) != 3 || p->nops >= MAXOPS) return -1;
      if (k < 0 || k >= MAXKEYS || a < 0 || a > 2) return -1;
      Op *o = &p->ops[p->nops++];
      o->kind = line[0];
      o->key = k;
      o->alias = a;
      o->val = v;
    }
  }
  for (int i = 0; i < p->nops; i++)
    if (p->ops[i].key >= p->nkeys) return -1;
  return 0;
}

// ------------------------------------------------------------------ minimisation (ddmin over ops, then simplify)
static int mini_execs;
static int still(const Plan *p, int cls) {
  mini_execs++;
  Result r = execute(p);
  return r.cls == cls;
}

static void minimise(Plan *p, int cls) {
  static Plan t;
  // 1. cut everything after the failing op
  Result r = execute(p);
  if (r.cls == cls && r.failop >= 0 && r.failop + 1 < p->nops) p->nops = r.failop + 1;
  // 2. ddmin over the op list
  for (int chunk = p->nops / 2 > 0 ? p->nops / 2 : 1; chunk >= 1; chunk /= 2) {
    int progress = 1;
    while (progress) {
      progress = 0;
      for (int s = 0; s + chunk <= p->nops;) {
        t = *p;
        memmove(&t.ops[s], &t.ops[s + chunk], sizeof(Op) * (t.nops - s - chunk));
        t.nops -= chunk;
        if (t.nops > 0 && still(&t, cls)) {
          *p = t;
          progress = 1;
        } else
          s += chunk;
      }
    }
  }
  // 3. simpler operations: NUL-terminated API through alias 0; gets are never needed
  for (int i = 0; i < p->nops; i++) {
    t = *p;
    Op *o = &t.ops[i];
    if (o->kind < 'a') o->kind += 32;
    o->alias = 0;
    if (still(&t, cls)) *p = t;
  }
  // 4. drop unused keys
  for (int k = p->nkeys - 1; k >= 0; k--) {
    int used = 0;
    for (int i = 0; i < p->nops; i++) used |= p->ops[i].key == k;
    t = *p;
    if (used) continue;
    memmove(&t.keys[k], &t.keys[k + 1], sizeof(Key) * (t.nkeys - k - 1));
    t.nkeys--;
    for (int i = 0; i < t.nops; i++)
      if (t.ops[i].key > k) t.ops[i].key--;
    if (t.nkeys > 0 && still(&t, cls)) *p = t;
  }
  // 5. renumber values 1..n
  t = *p;
  for (int i = 0; i < t.nops; i++) t.ops[i].val = i + 1;
  if (still(&t, cls)) *p = t;
}

static void plan_oneline(const Plan *p, char *out, size_t n) {
  size_t o = 0;
  o += snprintf(out + o, n - o, "K%d", p->nkeys);
  for (int i = 0; i < p->nkeys && o < n; i++) {
    o += snprintf(out + o, n - o, ",");
    for (int j = 0; j < p->keys[i].len && o + 3 < n; j++) o += snprintf(out + o, n - o, "%02x", p->keys[i].b[j]);
  }
  o += snprintf(out + o, n - o, ";");
  for (int i = 0; i < p->nops && o + 32 < n; i++)
    o += snprintf(out + o, n - o, "%c%d.%d.%d ", p->ops[i].kind, p->ops[i].key, p->ops[i].alias, p->ops[i].val);
}

static uint64_t plan_hash(const Plan *p) {
  uint64_t h = 0xcbf29ce484222325ull;
  for (int i = 0; i < p->nkeys; i++) {
    hmix(&h, p->keys[i].len);
    for (int j = 0; j < p->keys[i].len; j++) hmix(&h, p->keys[i].b[j]);
  }
  for (int i = 0; i < p->nops; i++) {
    hmix(&h, p->ops[i].kind);
    hmix(&h, p->ops[i].key);
    hmix(&h, p->ops[i].alias);
  }
  return h;
}

int main(int argc, char **argv) {
  signal(SIGABRT, on_sig);
  signal(SIGSEGV, on_sig);
  signal(SIGFPE, on_sig);
  signal(SIGBUS, on_sig);
  __sanitizer_set_death_callback(on_san_death);
  static Plan p, m;
  if (argc < 2) return 2;
  if (!strcmp(argv[1], "selftest")) {
    hs_selftest();
    return 0;
  }
  if (!strcmp(argv[1], "families")) {
    build_families();
    int cap = argc > 2 ? atoi(argv[2]) : 1024, n = argc > 3 ? atoi(argv[3]) : 8;
    if (!families_ready) { printf("nofamilies\n"); return 0; }
    (void)cap;
    for (int b = 0; b < FAMCAP && n > 0; b++) {
      int cnt = 0;
      for (int c = fam_head[b]; c >= 0; c = fam_next[c]) cnt++;
      if (cnt < 6) continue;
      printf("F %d", b);
      for (int c = fam_head[b]; c >= 0; c = fam_next[c]) printf(" m%d", c);
      printf("\n");
      n--;
    }
    return 0;
  }
  if (!strcmp(argv[1], "replay")) {
    FILE *f = fopen(argv[2], "r");
    if (!f || read_plan(f, &p)) { fprintf(stderr, "bad plan file\n"); return 2; }
    Result r = execute(&p);
    printf("R class=%s failop=%d loghash=%016llx %s\n", cname[r.cls], r.failop, (unsigned long long)r.loghash, r.detail);
    return r.cls ? 1 : 0;
  }
  build_families();
  if (!strcmp(argv[1], "run")) {
    uint64_t seed = strtoull(argv[2], 0, 0);
    int maxops = argc > 3 ? atoi(argv[3]) : 400, maxkeys = argc > 4 ? atoi(argv[4]) : 40;
    cur_seed = seed;
    gen(&p, seed, maxops, maxkeys);
    print_plan(stdout, &p);
    Result r = execute(&p);
    printf("R class=%s failop=%d loghash=%016llx %s\n", cname[r.cls], r.failop, (unsigned long long)r.loghash, r.detail);
    if (r.cls) {
      m = p;
      minimise(&m, r.cls);
      printf("minimised (%d executions):\n", mini_execs);
      print_plan(stdout, &m);
    }
    return r.cls ? 1 : 0;
  }
  if (!strcmp(argv[1], "batch")) {
    uint64_t master = strtoull(argv[2], 0, 0);
    long first = atol(argv[3]), count = atol(argv[4]);
    int maxops = argc > 5 ? atoi(argv[5]) : 400, maxkeys = argc > 6 ? atoi(argv[6]) : 40;
    long runs = 0, viol = 0, ops = 0, nontriv = 0, rehashes = 0, rwt = 0, reins = 0, pwt = 0;
    int maxcap = 0;
    uint64_t nthash = 0; // xor-accumulated distinct measure is done by the driver from 'H' lines; here a cheap bloom-free sample
    long modecount[6] = {0};
    for (long i = first; i < first + count; i++) {
      uint64_t seed = mixseed(master, i);
      cur_seed = seed;
      gen(&p, seed, maxops, maxkeys);
      Result r = execute(&p);
      runs++;
      ops += p.nops;
      modecount[p.genmode % 6]++;
      rehashes += r.rehashes;
      rwt += r.rehash_with_tombs;
      reins += r.reinserts_after_delete;
      pwt += r.puts_with_tombs;
      if (r.max_cap > maxcap) maxcap = r.max_cap;
      int nt = r.reinserts_after_delete > 0 || r.rehash_with_tombs > 0;
      if (nt) {
        nontriv++;
        printf("H %016llx\n", (unsigned long long)plan_hash(&p));
      }
      (void)nthash;
      if (r.cls) {
        // determinism gate part 1: same seed again, same log hash
        gen(&m, seed, maxops, maxkeys);
        Result r2 = execute(&m);
        if (r2.cls != r.cls || r2.loghash != r.loghash) {
          printf("N %llu nondeterministic\n", (unsigned long long)seed);
          continue;
        }
        viol++;
        if (viol > 3) continue; // the first three per chunk are minimised and reported, the rest only counted
        mini_execs = 0;
        minimise(&m, r.cls);
        Result rm = execute(&m);
        static char line[8192];
        plan_oneline(&m, line, sizeof line);
        printf("V %llu %s %d %016llx %d %s\n", (unsigned long long)seed, cname[r.cls], p.nops, (unsigned long long)rm.loghash,
               mini_execs, line);
        fflush(stdout);
      }
    }
    printf("S runs=%ld ops=%ld viol=%ld nontrivial=%ld rehashes=%ld rehash_with_tombstones=%ld reinserts_after_delete=%ld "
           "puts_with_tombstones=%ld max_capacity=%d internals=%d families=%d modes=%ld,%ld,%ld,%ld,%ld,%ld\n",
           runs, ops, viol, nontriv, rehashes, rwt, reins, pwt, maxcap, hs_have_internals(), families_ready, modecount[0],
           modecount[1], modecount[2], modecount[3], modecount[4], modecount[5]);
    return 0;
  }
  return 2;
}
