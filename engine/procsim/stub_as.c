// Stub assembler: `as -c <input> -o <output>`. Reads the whole input, fails like an assembler
// would on the token ASFAIL, writes "OBJ <bytes> <fnv of input>\n". Handles every I/O error the
// way a careful tool does: message, remove the partial output, exit 1.
#include <stdio.h>
#include <stdlib.h>
#include <string.h>
#include <unistd.h>
#include <sys/stat.h>
static void unlink_if_ordinary(const char *p) { struct stat st; if (lstat(p, &st) == 0 && S_ISREG(st.st_mode)) unlink(p); }
int vsim_stub_marker = 1;
int main(int argc, char **argv) {
  const char *in = NULL, *out = NULL;
  for (int i = 1; i < argc; i++) {
    if (!strcmp(argv[i], "-o") && i + 1 < argc) out = argv[++i];
    else if (argv[i][0] != '-') in = argv[i];
  }
  if (!out) { fprintf(stderr, "stub-as: usage\n"); return 2; }
  // like the real assembler: no input file (or "-") means standard input -- a driver may feed the compiler's text through a pipe
  FILE *f = (!in || !strcmp(in, "-")) ? stdin : fopen(in, "r");
  if (!in) in = "{standard input}";
  if (!f) { fprintf(stderr, "stub-as: cannot open %s\n", in); return 1; }
  unsigned long h = 0xcbf29ce484222325ul, n = 0;
  char buf[4096];
  size_t k;
  int bad = 0;
  char tail[8] = {0};
  while ((k = fread(buf, 1, sizeof buf, f)) > 0) {
    for (size_t i = 0; i < k; i++) {
      h = (h ^ (unsigned char)buf[i]) * 0x100000001b3ul;
      memmove(tail, tail + 1, 5);
      tail[5] = buf[i];
      if (!memcmp(tail, "ASFAIL", 6)) bad = 1;
    }
    n += k;
  }
  if (ferror(f)) { fprintf(stderr, "stub-as: read error on %s\n", in); return 1; }
  if (f != stdin) fclose(f);
  if (bad) { fprintf(stderr, "stub-as: %s: Error: no such instruction\n", in); return 1; }
  FILE *o = fopen(out, "w");
  if (!o) { fprintf(stderr, "stub-as: cannot open %s for writing\n", out); return 1; }
  fprintf(o, "OBJ %lu %016lx\n", n, h);
  for (int i = 0; i < 40; i++) fprintf(o, "pad %d....................................................................\n", i);
  if (ferror(o) | fclose(o)) { fprintf(stderr, "stub-as: write error on %s\n", out); unlink_if_ordinary(out); return 1; }
  return 0;
}
