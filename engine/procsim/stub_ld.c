// Stub linker: `ld -o <output> ... inputs ...`. Reads every input that is not a system file,
// writes "EXE <n> <fnv>\n". Fails on missing/unreadable inputs or on an input containing LDFAIL.
// Library and linker options the workload generator invents (-lvsim*, --vsimw* via -Wl, --vsimx* via -Xlinker)
// are part of the hash: -lvsim* / --vsimw* where they stand among the inputs, --vsimx* (whose place the driver may
// choose) after everything else, in their own order.
#include <stdio.h>
#include <stdlib.h>
#include <string.h>
#include <unistd.h>
#include <sys/stat.h>
static void unlink_if_ordinary(const char *p) { struct stat st; if (lstat(p, &st) == 0 && S_ISREG(st.st_mode)) unlink(p); }
int vsim_stub_marker = 1;
int main(int argc, char **argv) {
  const char *out = "a.out";
  unsigned long h = 0xcbf29ce484222325ul, n = 0;
  int bad = 0;
  char extra[4096];
  size_t ne = 0;
  for (int i = 1; i < argc; i++) {
    const char *a = argv[i];
    if (!strcmp(a, "-o") || !strcmp(a, "-m") || !strcmp(a, "-dynamic-linker") || !strcmp(a, "-L")) {
      if (!strcmp(a, "-o") && i + 1 < argc) out = argv[i + 1];
      i++;
      continue;
    }
    if (!strncmp(a, "-lvsim", 6) || !strncmp(a, "--vsimw", 7)) {
      for (const char *c = a; *c; c++) h = (h ^ (unsigned char)*c) * 0x100000001b3ul;
      h = (h ^ '\n') * 0x100000001b3ul;
      continue;
    }
    if (!strncmp(a, "--vsimx", 7)) {
      size_t l = strlen(a);
      if (ne + l + 1 < sizeof extra) { memcpy(extra + ne, a, l); extra[ne + l] = '\n'; ne += l + 1; }
      continue;
    }
    if (a[0] == '-') continue;
    if (!strncmp(a, "/usr/", 5) || !strncmp(a, "/lib", 4)) continue;
    FILE *f = fopen(a, "r");
    if (!f) { fprintf(stderr, "stub-ld: cannot find %s\n", a); return 1; }
    char buf[4096], tail[8] = {0};
    size_t k;
    while ((k = fread(buf, 1, sizeof buf, f)) > 0) {
      for (size_t j = 0; j < k; j++) {
        h = (h ^ (unsigned char)buf[j]) * 0x100000001b3ul;
        memmove(tail, tail + 1, 5);
        tail[5] = buf[j];
        if (!memcmp(tail, "LDFAIL", 6)) bad = 1;
      }
      n++;
    }
    if (ferror(f)) { fprintf(stderr, "stub-ld: read error on %s\n", a); return 1; }
    fclose(f);
  }
  for (size_t j = 0; j < ne; j++) h = (h ^ (unsigned char)extra[j]) * 0x100000001b3ul;
  if (bad) { fprintf(stderr, "stub-ld: undefined reference\n"); return 1; }
  FILE *o = fopen(out, "w");
  if (!o) { fprintf(stderr, "stub-ld: cannot open output file %s\n", out); return 1; }
  fprintf(o, "EXE %lu %016lx\n", n, h);
  if (ferror(o) | fclose(o)) { fprintf(stderr, "stub-ld: write error on %s\n", out); unlink_if_ordinary(out); return 1; }
  return 0;
}
