// libvsim.so -- LD_PRELOAD seam that parks a process at every interesting libc call until the
// simulation controller (procsim.py) lets it proceed, fails the call, or kills the process.
//
// Protocol (one Unix stream socket per process, kept on fd 200 so that it survives exec):
//   process -> controller   HELLO <pid> <ppid> <tag> new|child|exec
//                           REQ <kind> <args...>        then blocks
//   controller -> process   GO [k=v ...] | FAIL <errno> | DIE <signal> | EXIT <status>
//   process -> controller   RES <kind> <result...>      after the real call (not answered)
// Strings are %-escaped. Without VSIM_SOCK in the environment the library does nothing.
#define _GNU_SOURCE
#include <dlfcn.h>
#include <errno.h>
#include <fcntl.h>
#include <signal.h>
#include <stdarg.h>
#include <stdio.h>
#include <stdlib.h>
#include <string.h>
#include <sys/socket.h>
#include <sys/stat.h>
#include <sys/types.h>
#include <sys/un.h>
#include <sys/wait.h>
#include <unistd.h>

#define CFD 200
static int active, coarse;
static long calloc_count, calloc_kill_at = -1;
static int calloc_kill_sig = SIGKILL;

extern void *__libc_calloc(size_t, size_t);

static void wr(const char *s, size_t n) {
  while (n) {
    ssize_t k = write(CFD, s, n);
    if (k <= 0) {
      if (k < 0 && errno == EINTR) continue;
      _exit(97); // controller gone: do not run free
    }
    s += k;
    n -= k;
  }
}

static int rdline(char *buf, int n) {
  int i = 0;
  for (;;) {
    char c;
    ssize_t k = read(CFD, &c, 1);
    if (k < 0 && errno == EINTR) continue;
    if (k <= 0) _exit(97);
    if (c == '\n') break;
    if (i < n - 1) buf[i++] = c;
  }
  buf[i] = 0;
  return i;
}

static int esc(char *out, int n, const char *s) {
  int o = 0;
  if (!s) s = "(null)";
  if (!*s) { if (n > 2) { out[o++] = '%'; out[o++] = 'e'; } out[o] = 0; return o; }
  for (; *s && o + 4 < n; s++) {
    unsigned char c = *s;
    if (c <= 0x20 || c == '%' || c >= 0x7f) o += snprintf(out + o, n - o, "%%%02x", c);
    else out[o++] = c;
  }
  out[o] = 0;
  return o;
}

static void sendf(const char *fmt, ...) {
  char buf[8192];
  va_list ap;
  va_start(ap, fmt);
  int n = vsnprintf(buf, sizeof buf - 1, fmt, ap);
  va_end(ap);
  if (n > (int)sizeof buf - 2) n = sizeof buf - 2;
  buf[n++] = '\n';
  wr(buf, n);
}

static void do_die(int sig) {
  signal(sig, SIG_DFL);
  sigset_t s;
  sigemptyset(&s);
  sigaddset(&s, sig);
  sigprocmask(SIG_UNBLOCK, &s, NULL);
  kill(getpid(), sig);
  for (;;) pause();
}

// sends a request, blocks for the verdict; returns 0 for GO (extra words in `extra`),
// >0 = errno to fail with. DIE / EXIT do not return.
static int request(char *extra, int nextra, const char *fmt, ...) {
  char buf[8192], reply[512];
  va_list ap;
  va_start(ap, fmt);
  int n = snprintf(buf, sizeof buf, "REQ ");
  n += vsnprintf(buf + n, sizeof buf - n - 1, fmt, ap);
  va_end(ap);
  if (n > (int)sizeof buf - 2) n = sizeof buf - 2;
  buf[n++] = '\n';
  int saved = errno;
  wr(buf, n);
  rdline(reply, sizeof reply);
  errno = saved;
  if (extra) extra[0] = 0;
  if (!strncmp(reply, "GO", 2)) {
    if (extra && reply[2]) snprintf(extra, nextra, "%s", reply + 3);
    return 0;
  }
  if (!strncmp(reply, "FAIL ", 5)) return atoi(reply + 5) ? atoi(reply + 5) : EIO;
  if (!strncmp(reply, "DIE ", 4)) do_die(atoi(reply + 4));
  if (!strncmp(reply, "EXIT ", 5)) _exit(atoi(reply + 5));
  _exit(98);
}

static long kv(const char *extra, const char *key, long dflt) {
  char pat[32];
  snprintf(pat, sizeof pat, "%s=", key);
  const char *p = strstr(extra, pat);
  return p ? atol(p + strlen(pat)) : dflt;
}

static void connect_controller(const char *how) {
  const char *path = getenv("VSIM_SOCK");
  int fd = socket(AF_UNIX, SOCK_STREAM, 0);
  struct sockaddr_un a;
  memset(&a, 0, sizeof a);
  a.sun_family = AF_UNIX;
  snprintf(a.sun_path, sizeof a.sun_path, "%s", path);
  if (fd < 0 || connect(fd, (struct sockaddr *)&a, sizeof a) < 0) _exit(96);
  if (fd != CFD) {
    dup2(fd, CFD);
    close(fd);
  }
  const char *tag = getenv("VSIM_TAG");
  sendf("HELLO %d %d %s %s", (int)getpid(), (int)getppid(), tag ? tag : "-", how);
}

// ------------------------------------------------------------------ process start / end
static int (*real_main)(int, char **, char **);
static int in_exit;

static int wrap_main(int argc, char **argv, char **envp) {
  if (getenv("VSIM_SOCK")) {
    struct stat st;
    if (fstat(CFD, &st) == 0 && S_ISSOCK(st.st_mode)) {
      const char *tag = getenv("VSIM_TAG");
      sendf("HELLO %d %d %s exec", (int)getpid(), (int)getppid(), tag ? tag : "-");
    } else
      connect_controller("new");
    active = 1;
    const char *base = strrchr(argv[0], '/');
    base = base ? base + 1 : argv[0];
    // fine-grained events for the compiler itself and for the stub tools (which export a marker);
    // real as/ld run in coarse mode: only their start and their exit are events
    coarse = !(strstr(base, "chibicc") || dlsym(RTLD_DEFAULT, "vsim_stub_marker"));
    char buf[7000], one[1024];
    int o = 0;
    for (int i = 0; i < argc && o < (int)sizeof buf - 1100; i++) {
      esc(one, sizeof one, argv[i]);
      o += snprintf(buf + o, sizeof buf - o, " %s", one);
    }
    char extra[256];
    request(extra, sizeof extra, "start %d%s", argc, buf);
    if (strstr(extra, "ck=")) {
      calloc_kill_at = kv(extra, "ck", -1);
      calloc_kill_sig = (int)kv(extra, "cksig", SIGKILL);
      calloc_count = 0;
    }
  }
  int rc = real_main(argc, argv, envp);
  if (active && !in_exit) {
    in_exit = 1;
    request(NULL, 0, "exit %d return-from-main", rc);
  }
  return rc;
}

int __libc_start_main(int (*main)(int, char **, char **), int argc, char **argv, void (*init)(void), void (*fini)(void),
                      void (*rtld_fini)(void), void *stack_end) {
  static int (*real)(int (*)(int, char **, char **), int, char **, void (*)(void), void (*)(void), void (*)(void), void *);
  real = dlsym(RTLD_NEXT, "__libc_start_main");
  real_main = main;
  return real(wrap_main, argc, argv, init, fini, rtld_fini, stack_end);
}

void exit(int status) {
  static void (*real)(int) __attribute__((noreturn));
  if (!real) real = dlsym(RTLD_NEXT, "exit");
  if (active && !in_exit) {
    in_exit = 1;
    request(NULL, 0, "exit %d", status);
  }
  real(status);
}

void _exit(int status) {
  static void (*real)(int) __attribute__((noreturn));
  if (!real) real = dlsym(RTLD_NEXT, "_exit");
  if (active && !in_exit) {
    in_exit = 1;
    request(NULL, 0, "_exit %d", status);
  }
  real(status);
}

// ------------------------------------------------------------------ process control
pid_t fork(void) {
  static pid_t (*real)(void);
  if (!real) real = dlsym(RTLD_NEXT, "fork");
  if (!active || coarse) return real();
  int e = request(NULL, 0, "fork");
  if (e) {
    errno = e;
    return -1;
  }
  pid_t pid = real();
  if (pid == 0) {
    close(CFD);
    connect_controller("child");
    return 0;
  }
  int saved = errno;
  sendf("RES fork %d", (int)pid);
  errno = saved;
  return pid;
}

int execvp(const char *file, char *const argv[]) {
  static int (*real)(const char *, char *const[]);
  if (!real) real = dlsym(RTLD_NEXT, "execvp");
  if (!active || coarse) return real(file, argv);
  char buf[7000], one[1024];
  int o = 0;
  for (int i = 0; argv[i] && o < (int)sizeof buf - 1100; i++) {
    esc(one, sizeof one, argv[i]);
    o += snprintf(buf + o, sizeof buf - o, " %s", one);
  }
  esc(one, sizeof one, file);
  int e = request(NULL, 0, "execvp %s%s", one, buf);
  if (e) {
    errno = e;
    return -1;
  }
  int r = real(file, argv);
  int saved = errno;
  sendf("RES execvp %d %d", r, saved);
  errno = saved;
  return r;
}

// posix_spawn / posix_spawnp without file actions and attributes are carried out as fork + exec through the
// wrappers above (the errno of a failed exec travels back through a close-on-exec pipe, as glibc reports it);
// anything fancier is passed through and the controller will call the run inconclusive
#include <spawn.h>
extern char **environ;
static int spawn_common(pid_t *pidp, const char *file, const posix_spawn_file_actions_t *fa, const posix_spawnattr_t *at, char *const argv[],
                        char *const envp[], int use_path) {
  int pfd[2];
  if (pipe2(pfd, O_CLOEXEC) < 0) return errno;
  pid_t pid = fork();
  if (pid < 0) {
    int e = errno;
    close(pfd[0]);
    close(pfd[1]);
    return e;
  }
  if (pid == 0) {
    close(pfd[0]);
    if (envp) environ = (char **)envp;
    if (use_path) execvp(file, argv);
    else {
      // execv through the same event: the controller does not care how the path was found
      execvp(file, argv);
    }
    int e = errno;
    if (write(pfd[1], &e, sizeof e) < 0) {}
    _exit(127);
  }
  close(pfd[1]);
  // never block outside a request: park until the controller has seen the child exec, fail to exec, or die
  request(NULL, 0, "spawnwait %d", (int)pid);
  int e = 0;
  ssize_t k;
  do k = read(pfd[0], &e, sizeof e);
  while (k < 0 && errno == EINTR);
  close(pfd[0]);
  if (k == (ssize_t)sizeof e && e) {
    int st;
    waitpid(pid, &st, 0); // through the wrapper: granted once the child is gone
    return e;
  }
  if (pidp) *pidp = pid;
  return 0;
}

int posix_spawnp(pid_t *pidp, const char *file, const posix_spawn_file_actions_t *fa, const posix_spawnattr_t *at, char *const argv[], char *const envp[]) {
  static int (*real)(pid_t *, const char *, const posix_spawn_file_actions_t *, const posix_spawnattr_t *, char *const[], char *const[]);
  if (!real) real = dlsym(RTLD_NEXT, "posix_spawnp");
  if (!active || coarse || fa || at) return real(pidp, file, fa, at, argv, envp);
  return spawn_common(pidp, file, fa, at, argv, envp, 1);
}

int posix_spawn(pid_t *pidp, const char *path, const posix_spawn_file_actions_t *fa, const posix_spawnattr_t *at, char *const argv[], char *const envp[]) {
  static int (*real)(pid_t *, const char *, const posix_spawn_file_actions_t *, const posix_spawnattr_t *, char *const[], char *const[]);
  if (!real) real = dlsym(RTLD_NEXT, "posix_spawn");
  if (!active || coarse || fa || at) return real(pidp, path, fa, at, argv, envp);
  return spawn_common(pidp, path, fa, at, argv, envp, 0);
}

pid_t wait(int *status) {
  static pid_t (*real)(int *);
  if (!real) real = dlsym(RTLD_NEXT, "wait");
  if (!active || coarse) return real(status);
  request(NULL, 0, "wait 0");
  int st = 0;
  pid_t r = real(&st);
  int saved = errno;
  sendf("RES wait %d %d %d", (int)r, st, r < 0 ? saved : 0);
  if (status && r > 0) *status = st; // like the kernel: untouched when nothing was reaped
  errno = saved;
  return r;
}

pid_t waitpid(pid_t pid, int *status, int options) {
  static pid_t (*real)(pid_t, int *, int);
  if (!real) real = dlsym(RTLD_NEXT, "waitpid");
  if (!active || coarse) return real(pid, status, options);
  request(NULL, 0, "wait %d", (options & WUNTRACED) ? 1 : 0); // (the controller may report a STOPPED child to a caller that asks for those)
  int st = 0;
  pid_t r = real(pid, &st, options);
  int saved = errno;
  sendf("RES wait %d %d %d", (int)r, st, r < 0 ? saved : 0);
  if (status && r > 0) *status = st; // like the kernel: untouched when nothing was reaped
  errno = saved;
  return r;
}

// ------------------------------------------------------------------ files
// mkstemp family: the six X's (which sit `suffixlen` bytes before the end) are supplied by the controller,
// so temporary names are a function of the seed
static int do_mkstemp(char *tmpl, int suffixlen, int flags) {
  char one[1024], extra[128];
  esc(one, sizeof one, tmpl);
  int e = request(extra, sizeof extra, "mkstemp %s", one);
  if (e) {
    errno = e;
    return -1;
  }
  size_t n = strlen(tmpl);
  const char *p = strstr(extra, "name=");
  int fd = -1;
  if (p && suffixlen >= 0 && n >= (size_t)suffixlen + 6 && strlen(p + 5) >= 6 && !strncmp(tmpl + n - suffixlen - 6, "XXXXXX", 6)) {
    memcpy(tmpl + n - suffixlen - 6, p + 5, 6);
    fd = open(tmpl, O_RDWR | O_CREAT | O_EXCL | (flags & (O_CLOEXEC | O_APPEND | O_SYNC)), 0600);
    if (fd < 0) memcpy(tmpl + n - suffixlen - 6, "XXXXXX", 6);
  }
  if (fd < 0) {
    static int (*real)(char *, int, int);
    if (!real) real = dlsym(RTLD_NEXT, "mkostemps");
    fd = real(tmpl, suffixlen, flags);
  }
  int saved = errno;
  esc(one, sizeof one, tmpl);
  sendf("RES mkstemp %d %s", fd, one);
  errno = saved;
  return fd;
}

int mkstemp(char *tmpl) {
  static int (*real)(char *);
  if (!real) real = dlsym(RTLD_NEXT, "mkstemp");
  if (!active || coarse) return real(tmpl);
  return do_mkstemp(tmpl, 0, 0);
}
int mkstemps(char *tmpl, int suffixlen) {
  static int (*real)(char *, int);
  if (!real) real = dlsym(RTLD_NEXT, "mkstemps");
  if (!active || coarse) return real(tmpl, suffixlen);
  return do_mkstemp(tmpl, suffixlen, 0);
}
int mkostemp(char *tmpl, int flags) {
  static int (*real)(char *, int);
  if (!real) real = dlsym(RTLD_NEXT, "mkostemp");
  if (!active || coarse) return real(tmpl, flags);
  return do_mkstemp(tmpl, 0, flags);
}
int mkostemps(char *tmpl, int suffixlen, int flags) {
  static int (*real)(char *, int, int);
  if (!real) real = dlsym(RTLD_NEXT, "mkostemps");
  if (!active || coarse) return real(tmpl, suffixlen, flags);
  return do_mkstemp(tmpl, suffixlen, flags);
}

// Files that come into being through open()/creat()/mkdir()/rename()/symlink()/link() directly (not through fopen or
// mkstemp, which are events of their own): reported to the controller, which checks at the end that nothing a command
// created outside its requested outputs is still there -- wherever it is (TMPDIR, $HOME, /var/tmp, next to an input ...).
static void note_created(const char *what, const char *path) {
  if (!active || coarse || !path) return;
  char one[1024], abs[1100];
  if (path[0] != '/') {
    char cwd[600];
    if (!getcwd(cwd, sizeof cwd)) return;
    snprintf(abs, sizeof abs, "%s/%s", cwd, path);
    path = abs;
  }
  esc(one, sizeof one, path);
  sendf("RES created %s %s", what, one);
}
int open(const char *path, int flags, ...) {
  static int (*real)(const char *, int, ...);
  if (!real) real = dlsym(RTLD_NEXT, "open");
  mode_t mode = 0;
  if (flags & (O_CREAT | O_TMPFILE)) { va_list ap; va_start(ap, flags); mode = va_arg(ap, mode_t); va_end(ap); }
  int existed = (flags & O_CREAT) && access(path, F_OK) == 0;
  int fd = real(path, flags, mode);
  if (fd >= 0 && (flags & O_CREAT) && !existed) { int e = errno; note_created("open", path); errno = e; }
  return fd;
}
int open64(const char *path, int flags, ...) {
  mode_t mode = 0;
  if (flags & (O_CREAT | O_TMPFILE)) { va_list ap; va_start(ap, flags); mode = va_arg(ap, mode_t); va_end(ap); }
  return open(path, flags, mode);
}
int creat(const char *path, mode_t mode) { return open(path, O_CREAT | O_WRONLY | O_TRUNC, mode); }
int mkdir(const char *path, mode_t mode) {
  static int (*real)(const char *, mode_t);
  if (!real) real = dlsym(RTLD_NEXT, "mkdir");
  int r = real(path, mode);
  if (r == 0) { int e = errno; note_created("mkdir", path); errno = e; }
  return r;
}
int rename(const char *from, const char *to) {
  static int (*real)(const char *, const char *);
  if (!real) real = dlsym(RTLD_NEXT, "rename");
  int r = real(from, to);
  if (r == 0) { int e = errno; note_created("rename", to); errno = e; }
  return r;
}
int symlink(const char *target, const char *path) {
  static int (*real)(const char *, const char *);
  if (!real) real = dlsym(RTLD_NEXT, "symlink");
  int r = real(target, path);
  if (r == 0) { int e = errno; note_created("symlink", path); errno = e; }
  return r;
}
int link(const char *from, const char *to) {
  static int (*real)(const char *, const char *);
  if (!real) real = dlsym(RTLD_NEXT, "link");
  int r = real(from, to);
  if (r == 0) { int e = errno; note_created("link", to); errno = e; }
  return r;
}

// read(2) and write(2) called DIRECTLY by the compiler (stdio's own transfers do not come through here): every other call on a
// descriptor above 2 transfers only part of what was asked for, as the kernel may at any time (a signal, a pipe, a full disk, a
// quota) -- never an error, never a false end of file. Code that loops until done does not notice.
static long n_shortio;
ssize_t read(int fd, void *buf, size_t n) {
  static ssize_t (*real)(int, void *, size_t);
  if (!real) real = dlsym(RTLD_NEXT, "read");
  static unsigned calls;
  if (active && !coarse && fd > 2 && fd != CFD && n > 1 && (++calls & 1)) {
    n_shortio++;
    n = n > 8 ? n / 2 + 1 : 1;
  }
  return real(fd, buf, n);
}
ssize_t write(int fd, const void *buf, size_t n) {
  static ssize_t (*real)(int, const void *, size_t);
  if (!real) real = dlsym(RTLD_NEXT, "write");
  static unsigned calls;
  if (active && !coarse && fd > 2 && fd != CFD && n > 1 && (++calls & 1)) {
    n_shortio++;
    n = n > 8 ? n / 2 + 1 : 1;
  }
  return real(fd, buf, n);
}

int unlink(const char *path);
// remove() and unlinkat() reach the kernel without going through unlink(): route them here, so that every deletion is an event
int remove(const char *path) {
  struct stat st;
  if (lstat(path, &st) == 0 && S_ISDIR(st.st_mode)) return rmdir(path);
  return unlink(path);
}
int unlinkat(int dirfd, const char *path, int flags) {
  static int (*real)(int, const char *, int);
  if (!real) real = dlsym(RTLD_NEXT, "unlinkat");
  if (dirfd == AT_FDCWD && !(flags & AT_REMOVEDIR)) return unlink(path);
  return real(dirfd, path, flags);
}

int unlink(const char *path) {
  static int (*real)(const char *);
  if (!real) real = dlsym(RTLD_NEXT, "unlink");
  // never let a simulated tool remove a device node or anything else that is not an ordinary file
  struct stat st;
  if (lstat(path, &st) == 0 && !S_ISREG(st.st_mode) && !S_ISLNK(st.st_mode)) {
    errno = EPERM;
    return -1;
  }
  if (!active || coarse) return real(path);
  char one[1024];
  esc(one, sizeof one, path);
  int e = request(NULL, 0, "unlink %s", one);
  if (e) {
    errno = e;
    return -1;
  }
  int r = real(path);
  int saved = errno;
  sendf("RES unlink %d %d", r, r ? saved : 0);
  errno = saved;
  return r;
}

struct cookie {
  int fd;
  long wbudget, rbudget; // bytes that still succeed; -1 = unlimited
  int err;
  int closefail;
  int fired;
};

static ssize_t ck_write(void *c, const char *buf, size_t n) {
  struct cookie *k = c;
  size_t want = n;
  if (k->wbudget >= 0 && (long)n > k->wbudget) want = k->wbudget;
  size_t done = 0;
  while (done < want) {
    ssize_t w = write(k->fd, buf + done, want - done);
    if (w < 0 && errno == EINTR) continue;
    if (w <= 0) return done ? (ssize_t)done : 0;
    done += w;
  }
  if (k->wbudget >= 0) k->wbudget -= done;
  if (done < n) {
    // the device is full / broken from here on: a short count (or 0) is an error to stdio
    if (!k->fired) {
      k->fired = 1;
      sendf("RES fault-fired write %d", k->err);
    }
    errno = k->err;
    return done;
  }
  return done;
}

static ssize_t ck_read(void *c, char *buf, size_t n) {
  struct cookie *k = c;
  if (k->rbudget == 0) {
    if (!k->fired) {
      k->fired = 1;
      sendf("RES fault-fired read %d", k->err);
    }
    errno = k->err;
    return -1;
  }
  if (k->rbudget > 0 && (long)n > k->rbudget) n = k->rbudget;
  ssize_t r;
  do r = read(k->fd, buf, n);
  while (r < 0 && errno == EINTR);
  if (r > 0 && k->rbudget > 0) k->rbudget -= r;
  return r;
}

static int ck_close(void *c) {
  struct cookie *k = c;
  int r = close(k->fd);
  if (k->closefail) {
    if (!k->fired) {
      k->fired = 1;
      sendf("RES fault-fired close %d", k->err);
    }
    errno = k->err;
    r = -1;
  }
  free(k);
  return r;
}

static FILE *do_fopen(const char *path, const char *mode, FILE *(*real)(const char *, const char *)) {
  if (!active || coarse) return real(path, mode);
  char one[1024], extra[256];
  esc(one, sizeof one, path);
  int e = request(extra, sizeof extra, "fopen %s %s", one, mode);
  if (e) {
    errno = e;
    return NULL;
  }
  long wb = kv(extra, "wb", -1), rb = kv(extra, "rb", -1), cf = kv(extra, "cf", 0);
  if (wb < 0 && rb < 0 && !cf) {
    FILE *f = real(path, mode);
    int saved = errno;
    sendf("RES fopen %d %d", f ? 0 : -1, f ? 0 : saved);
    errno = saved;
    return f;
  }
  int writing = mode[0] == 'w' || mode[0] == 'a';
  int fd = open(path, writing ? (O_WRONLY | O_CREAT | (mode[0] == 'a' ? O_APPEND : O_TRUNC)) : O_RDONLY, 0666);
  if (fd < 0) {
    int saved = errno;
    sendf("RES fopen -1 %d", saved);
    errno = saved;
    return NULL;
  }
  struct cookie *k = __libc_calloc(1, sizeof *k);
  k->fd = fd;
  k->wbudget = wb;
  k->rbudget = rb;
  k->err = (int)kv(extra, "err", EIO);
  k->closefail = (int)cf;
  cookie_io_functions_t io = {.read = ck_read, .write = ck_write, .seek = NULL, .close = ck_close};
  FILE *f = fopencookie(k, mode, io);
  sendf("RES fopen %d 0 cookie", f ? 0 : -1);
  return f;
}

FILE *fopen(const char *path, const char *mode) {
  static FILE *(*real)(const char *, const char *);
  if (!real) real = dlsym(RTLD_NEXT, "fopen");
  return do_fopen(path, mode, real);
}

FILE *fopen64(const char *path, const char *mode) {
  static FILE *(*real)(const char *, const char *);
  if (!real) real = dlsym(RTLD_NEXT, "fopen64");
  return do_fopen(path, mode, real);
}

// ------------------------------------------------------------------ crash points between libc calls
void *calloc(size_t n, size_t m) {
  if (calloc_kill_at >= 0 && ++calloc_count == calloc_kill_at) {
    sendf("RES fault-fired calloc-kill %ld", calloc_count);
    do_die(calloc_kill_sig);
  }
  return __libc_calloc(n, m);
}
