#!/usr/bin/env python3
# C14 -- driver process discipline under failure and concurrency.
#
# Every process of the driver pipeline (driver, cc1, as, ld) is a real process running under
# libvsim.so, which parks it at each fork/exec/wait/mkstemp/unlink/fopen/exit until this controller
# grants the call, fails it, or kills the process. Exactly one request is granted at a time and the
# next choice is made only when every live process is parked again, so the interleaving of all
# file-system-visible actions of concurrent driver invocations is a pure function of the seed.
import ctypes, errno, hashlib, json, os, re, selectors, shutil, signal, socket, subprocess, sys, time, traceback

sys.path.insert(0, os.path.join(os.path.dirname(os.path.abspath(__file__)), "..", "common"))
from vcommon import *

PROP = "C14"
HERE = os.path.dirname(os.path.abspath(__file__))
EVENT_CAP = 5000
SIGNAME = {9: "SIGKILL", 11: "SIGSEGV", 6: "SIGABRT", 15: "SIGTERM", 13: "SIGPIPE", 2: "SIGINT", 1: "SIGHUP", 3: "SIGQUIT"}


class Inconclusive(Exception):
    pass


# ====================================================================================== build
def build_tools(sdir):
    src = os.path.join(sdir, "src")
    cc = build_chibicc(src)
    os.makedirs(BUILD, exist_ok=True)
    for out, srcf, flags, libs in (("libvsim.so", "vsim.c", ["-O1", "-g", "-fPIC", "-shared"], ["-ldl"]),
                                   ("stub_as", "stub_as.c", ["-O1", "-rdynamic"], []), ("stub_ld", "stub_ld.c", ["-O1", "-rdynamic"], [])):
        o = os.path.join(BUILD, out)
        s = os.path.join(HERE, srcf)
        if not os.path.exists(o) or os.path.getmtime(o) < os.path.getmtime(s):
            r = subprocess.run(["gcc"] + flags + [s, "-o", o] + libs, stdout=subprocess.PIPE, stderr=subprocess.STDOUT)
            if r.returncode:
                raise BuildError(out + ": " + r.stdout.decode())
    tools = {}
    for name, a, l in (("stub", "stub_as", "stub_ld"), ("realas", "/usr/bin/as", "stub_ld"), ("real", "/usr/bin/as", "/usr/bin/ld")):
        d = os.path.join(sdir, "bin_" + name)
        os.makedirs(d, exist_ok=True)
        for tool, target in (("as", a), ("ld", l)):
            p = os.path.join(d, tool)
            if os.path.lexists(p):
                os.unlink(p)
            if target.startswith("/"):
                os.symlink(target, p)
            else:
                shutil.copy(os.path.join(BUILD, target), p)
        tools[name] = d
    shutil.copy(os.path.join(BUILD, "libvsim.so"), os.path.join(sdir, "libvsim.so"))
    return cc, tools


def private_tmp():
    """give this (worker) process its own empty /tmp: every temporary any process of a run leaves behind is visible"""
    try:
        libc = ctypes.CDLL(None, use_errno=True)
        if libc.unshare(0x00020000) != 0:
            return False
        if libc.mount(None, b"/", None, 0x4000 | 0x40000, None) != 0:
            return False
        if libc.mount(b"tmpfs", b"/tmp", b"tmpfs", 0, b"size=512m") != 0:
            return False
        # the other place temporaries traditionally go; TMPDIR points into it (a driver that starts to honour TMPDIR is still watched)
        if libc.mount(b"tmpfs", b"/var/tmp", b"tmpfs", 0, b"size=64m") != 0:
            return False
        return True
    except Exception:
        return False


# ====================================================================================== workload
def file_content(kind, ident):
    if kind == "valid":
        return '#include "common.h"\nint fn_%s(int x) { return x * %d + COMMON; }\nint main(void) { return 0; }\n' % (ident, len(ident) + 2)
    if kind == "valid3":   # two headers: the compiler reads three streams
        return '#include "common.h"\n#include "extra.h"\nint fn3_%s(int x) { return x + COMMON + EXTRA; }\nint main(void) { return 0; }\n' % ident
    if kind == "valid2":
        return 'int g_%s = %d;\nstatic int h(int a, int b) { return a - b; }\nint use_%s(void) { return h(g_%s, 3); }\n' % (ident, len(ident), ident, ident)
    if kind == "tokerr":
        return 'int x_%s = "abc;\n' % ident
    if kind == "pperr":
        return "int ok_%s;\n#error stop here\n" % ident
    if kind == "parseerr":
        return "int main( { return 0; }\n"
    if kind == "generr":  # accepted by the parser, rejected only while generating code
        return "int before_%s(void) { return 1; }\nint main(void) { 1=2; return 0; }\n" % ident
    if kind == "needcfg":  # compiles only if "config.h" is found from inc/api.h -- which, alone, it is not: the header lies in ANOTHER unit's directory
        return '#include "inc/api.h"\nint fcfg_%s(void) { return CFG; }\n' % ident
    if kind == "segv":    # kills cc1 for real (stack overflow)
        return "int x = " + "(" * 120000 + "1" + ")" * 120000 + ";\n"
    if kind == "asm":
        return ".globl asm_%s\nasm_%s:\n  ret\n" % (ident, ident)
    if kind == "asmbad":
        return "ASFAIL %s is not an instruction\n" % ident
    if kind == "obj":
        return "OBJ prebuilt %s\n" % ident
    if kind == "objbad":
        return "OBJ LDFAIL %s\n" % ident
    raise ValueError(kind)


C_KINDS = ["valid", "valid", "valid3", "valid2", "tokerr", "pperr", "parseerr", "generr", "segv", "missing", "dir"]
S_KINDS = ["asm", "asm", "asmbad", "missing"]
O_KINDS = ["obj", "obj", "objbad", "missing"]
FAILING_KINDS = {"tokerr", "pperr", "parseerr", "generr", "segv", "missing", "dir", "asmbad", "objbad", "needcfg"}


def gen_scenario(seed, opts):
    r = Rng(seed)
    x = r.below(20)
    ninv = 1 if x < 8 else 2 if x < 16 else 3
    ninv = min(ninv, opts.get("maxinv", 3))
    tools = "stub"
    x = r.below(100)
    if x < 8:
        tools = "realas"
    elif x < 10:
        tools = "real"
    fault_free = r.below(10) < 3
    files, pre, invs = {}, {}, []
    all_inputs = []
    files["common.h"] = "header"
    files["extra.h"] = "header2"
    if r.below(10) == 0:
        # the user's own programs called `as` / `ld` / `chibicc` in the working directory: never what the driver runs
        for nm in r.sample(["as", "ld", "chibicc"], r.range(1, 2)):
            files[nm] = "script"
    enabled_fault_kinds = [k for k in ("childexit", "childsig", "childstop", "callockill", "openr", "readerr", "openw", "writeerr", "closeerr", "forkfail", "execfail", "mkstempfail")
                           if r.below(2)]  # swarm: a random subset per run
    for i in range(ninv):
        mode = r.pick(["E", "S", "c", "c", "link", "link", "E", "S", "c", "c", "link", "link", "M"])
        if tools == "real":
            mode = r.pick(["c", "link", "S"])
        nin = r.pick([1, 1, 1, 2, 2, 3, 3, 4, 5])
        many = mode == "link" and tools == "stub" and r.below(25) == 0
        many_profile = None
        if many:
            nin = r.pick([9, 12, 17, 24, 33, 40, 48])        # long command lines (any fixed-size table in the driver; 2 temporaries per .c, 1 per .s)
            many_profile = r.pick([["o", "o", "s", "a"], ["s", "s", "s", "o"], ["c", "c", "c", "s"]])
        # -x LANG: the language comes from the option, not from the file name (which may have any extension or none)
        xlang = None
        if tools == "stub" and not many and r.below(9) == 0:
            xlang = "c" if mode in ("E", "M") or r.below(3) else "assembler"
            if xlang == "assembler" and mode == "S":
                xlang = "c"
        inputs = []
        for j in range(nin):
            ext = r.pick(["c", "c", "c", "c", "s", "o"])
            if many and j > 1:
                ext = r.pick(many_profile)
            if mode == "link" and tools == "stub" and r.below(12) == 0:
                ext = r.pick(["a", "so"])
            if mode in ("E", "M"):
                ext = "c"
            if xlang:
                ext = "c" if xlang == "c" else "s"
            kind = r.pick({"c": C_KINDS, "s": S_KINDS, "o": O_KINDS, "a": O_KINDS, "so": O_KINDS}[ext])
            if (r.below(3) == 0 or many) and kind in FAILING_KINDS:  # keep most inputs good so that later steps are reached
                kind = {"c": "valid", "s": "asm", "o": "obj", "a": "obj", "so": "obj"}[ext]
            if tools != "stub" and kind in ("obj", "objbad"):
                kind = "valid"
                ext = "c"
            if tools == "real" and kind == "valid" and j > 0:
                kind = "valid2"
            sub = r.pick(["d0/", "d1/", "v.1/", "d0/../d1/"]) if r.below(6) == 0 else ""
            stem_extra = r.pick(["", "", "", ".tab", ".x.y", ".c", ".o"])   # base names with more than one dot
            if r.below(12) == 0:
                stem_extra = r.pick([" sp", "%s", "$d", "'q", "=e", "#h", "%%", "\\b", "-m"])   # characters that mean something to printf, make or a shell
            if xlang:
                ext = r.pick(["txt", "", "C", "h", "o", ext, ext])   # the name says nothing (or something else) about the language
            name = "%si%d_%s%d%s%s" % (sub, i, ("abcdefghijklmnopqrstuvwxyz"[j % 26] + ("" if j < 26 else "z")), r.below(3), stem_extra, "." + ext if ext else "")
            if not sub and r.below(8) == 0:
                name = "./" + name
            # inputs are shared on purpose: the same file (or an equally named file in another directory)
            # given to an earlier invocation, typically with another -o / another mode, as parallel builds do
            if all_inputs and r.below(3) == 0:
                name, kind = r.pick(all_inputs)
                if r.below(4) == 0 and "/" not in name:
                    name = "d%d/%s" % (r.below(2), name)
                ext = name.rsplit(".", 1)[-1] if "." in os.path.basename(name) else ""
                if xlang:
                    if (xlang == "c") != (kind in C_KINDS) or kind in ("missing", "dir"):
                        continue
                elif ext not in ("c", "s", "o", "a", "so") or (mode in ("E", "M") and ext != "c"):
                    continue
            # within one command two inputs never share a stem: they would be told to produce the same default output
            # (when nothing is derived from the name -- linking, -E / -M to one stream -- the same input may well be given twice)
            stem = os.path.basename(name).rsplit(".", 1)[0]
            if any(stem == os.path.basename(n).rsplit(".", 1)[0] for n, _ in inputs) and not (mode in ("link", "E", "M") and r.below(2)):
                continue
            donors = [n for n, k2 in inputs if n.endswith(".c") and os.path.dirname(n) not in ("", ".") and os.path.dirname(n) != os.path.dirname(name) and ".." not in n]
            if ext == "c" and not xlang and donors and kind in ("valid", "valid2", "pperr") and r.below(4) == 0 and ".." not in name:
                kind = "needcfg"
                files[os.path.join(os.path.dirname(r.pick(donors)), "config.h")] = "cfgheader"
                files[os.path.join(os.path.dirname(name), "inc/api.h")] = "apiheader"
            inputs.append((name, kind))
            all_inputs.append((name, kind))
        use_o = False
        out = None
        if mode == "link":
            use_o = r.below(3) > 0
        elif len(inputs) == 1:
            use_o = r.below(2) == 0
        elif mode == "M":
            use_o = False             # several -M inputs into one -o file: not generated (the statement is silent about it)
        else:
            use_o = r.below(12) == 0  # the driver must refuse this combination
        if use_o:
            c = r.below(10)
            out = "out%d.%s" % (i, {"E": "i", "S": "s", "c": "o", "link": "exe", "M": "dm"}[mode])
            if c == 0:
                out = "nodir%d/x.out" % i  # unwritable: directory does not exist
            elif c == 1:
                out = "/dev/full"          # unwritable: every write fails with ENOSPC
            elif c == 2:
                out = "outdir%d" % i       # unwritable: is a directory
                files[out + "/keep"] = "text"
            elif c == 3:
                out = "osub%d/%s" % (i, out)   # fine: an existing subdirectory
                files["osub%d/keep" % i] = "text"
        argv = {"E": ["-E"], "S": ["-S"], "c": ["-c"], "link": [], "M": ["-M"]}[mode]
        if r.below(8) == 0:
            extra_mode = {"E": ["-c"], "M": ["-c"], "S": ["-c"], "c": [], "link": []}[mode] if r.below(2) else {"E": ["-S"], "M": ["-S"], "S": [], "c": [], "link": []}[mode]
            if extra_mode:
                argv = (argv + extra_mode) if r.below(2) else (extra_mode + argv)
        nc = sum(1 for n, _ in inputs if n.endswith(".c"))
        if mode in ("c", "S", "link") and tools == "stub" and r.below(6 if mode != "S" else 3) == 0 and (nc == 1 or not use_o):
            argv.append("-MD" if r.below(4) else "-MMD")            # dependency files are outputs too
            if nc == 1 and r.below(3) == 0:
                argv += ["-MF", "dep%d.d" % i]
            if r.below(2):
                argv.append("-MP")
        if mode == "M" and r.below(2):
            argv += r.pick([["-MP"], ["-MT", "tgt%d" % i], ["-MF", "depm%d.d" % i]])
        if r.below(4) == 0:
            argv.append("-fPIC" if r.below(2) else "-O2")
        if r.below(3) == 0:
            # options that must not change the contract: they only exercise other paths of the argument parser
            deco = [["-I."], ["-DX=1"], ["-D", "Y"], ["-UFOO"], ["-std=c11"], ["-w"], ["-g"], ["-idirafter", "d0"], ["-include", "common.h"], ["-fcommon"], ["-fno-common"], ["-Wall"]]
            if mode == "link" and tools == "stub":
                deco += [["-lm"], ["-Wl,-x,-y"], ["-L."], ["-L", "d1"], ["-s"], ["-Xlinker", "--foo"], ["-static"], ["-shared"]]
            for _ in range(r.range(1, 2)):
                argv += r.pick(deco)
        if r.below(25) == 0:
            # options other drivers have and this one may grow: refused today (an early, clean failure), but if accepted they
            # must not change what a failing step means
            argv.append(r.pick(["-pipe", "-pipe", "-pipe", "-save-temps", "-v", "-pthread", "-nostdlib", "-pedantic", "-Werror", "-r", "-rdynamic", "-march=native", "--verbose", "-time"]))
        if xlang:
            argv += r.pick([["-x", xlang], ["-x" + xlang]])     # in front of the inputs (positional and global readings agree)
        names = [n for n, _ in inputs]
        if mode == "link" and tools == "stub" and names and r.below(5) == 0:
            # libraries and linker options keep their place among the objects; the stub linker hashes them where they stand
            for _ in range(r.range(1, 3)):
                tok = r.pick(["-lvsim%d" % r.below(3), "-Wl,--vsimw%d" % r.below(3), "-Wl,--vsimw%d,--vsimw%d" % (r.below(3), r.below(3)), "-Xlinker --vsimx%d" % r.below(3)])
                pos = r.below(len(names) + 1)
                names[pos:pos] = tok.split(" ")
        argv += names
        if use_o and r.below(15) == 0:
            argv += ["-o", "decoy%d.out" % i]      # -o given twice: the last one counts, the first names nothing
        if use_o:
            if r.below(2):
                argv += ["-o", out]
            else:
                two = ("-D", "-U", "-I", "-idirafter", "-include", "-L", "-Xlinker", "-x", "-MF", "-MT", "-MQ", "-o")
                pos = r.below(len(argv) + 1)
                while pos > 0 and argv[pos - 1] in two:   # never between an option and its argument
                    pos -= 1
                argv.insert(pos, "-o" + out)
        for n, k in inputs:
            if n.startswith("d0/../"):
                files["d0/keep"] = "text"     # the directory the path walks through exists
            if k == "missing":
                continue
            files[n] = k
        so_kind = "file"
        if mode in ("E", "M") and not use_o and "-MF" not in argv and r.below(8) == 0:
            so_kind = "devfull"
        elif r.below(25) == 0:
            so_kind = "closed"      # descriptor 1 is closed: the first file the process opens becomes "standard output"
        inv = {"argv": argv, "stdout": so_kind, "stderr": r.pick(["devfull", "brokenpipe"]) if r.below(20) == 0 else "file", "faults": []}
        if so_kind == "file" and r.below(25) == 0:
            inv["stdin"] = "closed"  # descriptor 0 is free: the first open() of every process returns 0
        if r.below(6) == 0:
            inv["argv0"] = "bare"         # started through PATH: argv[0] is just "chibicc"
        if r.below(30) == 0:
            inv["sigchld"] = "ignored"   # inherited from a nohup-style parent: the kernel reaps the children itself and wait() fails with ECHILD
        invs.append(inv)
    # concurrent invocations have disjoint requested outputs (two commands told to write the same file
    # interfere legitimately); everything else -- directory, /tmp, inputs -- is shared on purpose
    seen = set()
    kept = []
    for i, inv in enumerate(invs):
        m = model(inv, files)
        req = set(m["requested"])
        if req & seen and m["mode"] == "link" and not m["refused"]:
            inv["argv"] = [a for k, a in enumerate(inv["argv"]) if not (a == "-o" or a.startswith("-o") or (k > 0 and inv["argv"][k - 1] == "-o"))]
            inv["argv"] += ["-o", "link%d.exe" % i]
            req = set(model(inv, files)["requested"])
        if req & seen and len(m["inputs"]) == 1 and not m["refused"] and m["mode"] in ("S", "c", "E"):
            inv["argv"] = [a for k, a in enumerate(inv["argv"]) if not (a == "-o" or a.startswith("-o") or (k > 0 and inv["argv"][k - 1] == "-o"))]
            inv["argv"] += ["-o", "own%d.%s" % (i, {"S": "s", "c": "o", "E": "i"}[m["mode"]])]
            if ("-MD" in inv["argv"] or "-MMD" in inv["argv"]) and "-MF" not in inv["argv"]:
                pass  # the dependency file follows -o (own<i>.d)
            req = set(model(inv, files)["requested"])
        if req & seen:
            continue
        # nor is a requested output ever one of the input files (of this or of another command): `-c -x assembler ./u.o` would
        # overwrite what it reads, and everybody else who reads it
        all_in = set(os.path.normpath(n) for n in files)
        if any(os.path.normpath(o) in all_in for o in req):
            continue
        seen |= req
        kept.append(inv)
    invs = kept
    scn = {"seed": seed, "tools": tools, "files": files, "pre": pre, "invocations": invs}
    # pre-existing outputs with known content (must survive a failed compile byte for byte)
    for i, inv in enumerate(invs):
        m = model(inv, files)
        for o in m["requested"]:
            if r.below(3) == 0 and not o.startswith(("/", "outdir", "nodir")) and "/" not in o and os.path.normpath(o) not in set(os.path.normpath(n) for n in files):
                pre[o] = "OLD CONTENT of %s\n" % o
    # faults: explicit ops attached to a named event of a named process of a named invocation
    if not fault_free:
        for i, inv in enumerate(invs):
            m = model(inv, files)
            nf = r.pick([0, 1, 1, 1, 2])
            for _ in range(nf):
                f = gen_fault(r, m, enabled_fault_kinds)
                if f:
                    inv["faults"].append(f)
    scn["sched"] = {"kind": r.pick(["random", "random", "sticky", "prio"]), "seed": r.u64()}
    return scn


def gen_fault(r, m, enabled):
    steps = m["steps"]  # list of roles in order, e.g. ["cc1#1","as#1","cc1#2","as#2","ld#1"]
    if not enabled:
        return None
    kind = r.pick(enabled)
    procs = [s for s in steps]
    if kind == "childstop":
        if not procs:
            return None
        return {"proc": r.pick(procs), "ev": "*", "n": r.pick([1, 2, 2, 3, 4, 6]), "act": "stop"}
    if kind in ("childexit", "childsig"):
        if not procs:
            return None
        p = r.pick(procs)
        n = r.pick([1, 1, 2, 3, 4, 6, 9])
        if kind == "childexit":
            return {"proc": p, "ev": "*", "n": n, "act": "exit", "status": r.pick([1, 1, 2, 255, 127, 126, 3, 64, 128])}
        return {"proc": p, "ev": "*", "n": n, "act": "die", "sig": r.pick([11, 9, 6, 15, 13, 2, 1, 3])}
    if kind == "callockill":
        c = [s for s in procs if s.startswith("cc1")]
        if not c:
            return None
        return {"proc": r.pick(c), "ev": "start", "n": 1, "act": "callockill", "k": r.pick([1, 10, 100, 300, 600, 900, 1200, 1500, 2000, 3000]) + r.below(97), "sig": r.pick([11, 9])}
    if kind == "openr":
        if not procs:
            return None
        return {"proc": r.pick(procs), "ev": "fopen-r", "n": r.pick([1, 1, 2, 3]), "act": "fail", "errno": r.pick([errno.ENOENT, errno.EACCES, errno.EMFILE])}
    if kind == "readerr":
        c = [s for s in procs if s.startswith("cc1")] or procs
        if not c:
            return None
        return {"proc": r.pick(c), "ev": "fopen-r", "n": r.pick([1, 1, 2, 3]), "act": "rbudget", "bytes": r.pick([0, 1, 10, 40, 100]), "errno": errno.EIO}
    if kind == "openw":
        if not procs:
            return None
        return {"proc": r.pick(procs), "ev": "fopen-w", "n": r.pick([1, 1, 2]), "act": "fail", "errno": r.pick([errno.EACCES, errno.ENOENT, errno.EISDIR, errno.ENOSPC])}
    if kind == "writeerr":
        if not procs:
            return None
        return {"proc": r.pick(procs), "ev": "fopen-w", "n": r.pick([1, 1, 2]), "act": "wbudget", "bytes": r.pick([0, 0, 1, 10, 37, 100, 200, 1000]), "errno": r.pick([errno.ENOSPC, errno.EIO])}
    if kind == "closeerr":
        if not procs:
            return None
        return {"proc": r.pick(procs), "ev": "fopen-w", "n": r.pick([1, 1, 2]), "act": "closefail", "errno": r.pick([errno.ENOSPC, errno.EIO, errno.EDQUOT])}
    if kind == "forkfail":
        if not procs:
            return None
        return {"proc": "driver", "ev": "fork", "n": r.range(1, len(procs)), "act": "fail", "errno": errno.EAGAIN}
    if kind == "execfail":
        if not procs:
            return None
        return {"proc": "pre#%d" % r.range(1, len(procs)), "ev": "execvp", "n": 1, "act": "fail", "errno": errno.ENOENT}
    if kind == "mkstempfail":
        if m["ntemps"] == 0:
            return None
        return {"proc": "driver", "ev": "mkstemp", "n": r.range(1, m["ntemps"]), "act": "fail", "errno": errno.EMFILE}
    return None


# ====================================================================================== reference model of the driver contract
def model(inv, files):
    """what the command line asks for: requested outputs, translation units, pipeline steps"""
    argv = inv["argv"]
    mode = "link"
    out = None
    inputs = []
    md = False
    mf = None
    lang = None
    items = []      # what the linker sees, in order: ("in", path) / ("tok", text); xtoks: -Xlinker arguments (placed by the driver)
    xtoks = []
    i = 0
    while i < len(argv):
        a = argv[i]
        if a == "-o":
            out = argv[i + 1]
            i += 2
            continue
        if a == "-x":
            lang = argv[i + 1]
            i += 2
            continue
        if a == "-Xlinker":
            xtoks.append(argv[i + 1])
            i += 2
            continue
        if a in ("-D", "-U", "-I", "-idirafter", "-include", "-L", "-MQ"):
            i += 2
            continue
        if a in ("-MF", "-MT"):
            if a == "-MF":
                mf = argv[i + 1]
            i += 2
            continue
        if a in ("-MD", "-MMD"):
            md = True
        elif a == "-M":
            mode = "M"
        elif a == "-MP":
            pass
        elif a.startswith("-o"):
            out = a[2:]
        elif a.startswith("-x"):
            lang = a[2:]
        elif a.startswith("-l"):
            items.append(("tok", a))
        elif a.startswith("-Wl,"):
            items += [("tok", t) for t in a[4:].split(",") if t]
        elif a == "-E":
            mode = "E" if mode != "M" else mode
        elif a == "-S":
            mode = "S" if mode not in ("E", "M") else mode
        elif a == "-c":
            mode = "c" if mode not in ("E", "S", "M") else mode
        elif not a.startswith("-"):
            inputs.append(a)
            items.append(("in", len(inputs) - 1))
        i += 1
    if lang == "none":
        lang = None
    def base(p, ext):
        b = os.path.basename(p)
        return (b[:b.rindex(".")] if "." in b else b) + ext
    refused = len(inputs) > 1 and out is not None and mode in ("E", "S", "c")
    tus, steps, requested = [], [], []
    ncc1 = nas = 0
    ntemps = 0
    if not refused:
        for p in inputs:
            ext = p[p.rindex("."):] if "." in os.path.basename(p) else ""
            if ext in (".a", ".so"):
                ext = ".o"          # archives and shared objects go to the linker as they are, like objects
            if lang:
                ext = {"c": ".c", "assembler": ".s"}[lang]
            tu = {"input": p, "ext": ext, "output": None, "cc1": None, "as": None}
            if ext == ".c":
                ncc1 += 1
                tu["cc1"] = "cc1#%d" % ncc1
                steps.append(tu["cc1"])
                if mode == "S":
                    tu["output"] = out or base(p, ".s")
                elif mode == "c":
                    tu["output"] = out or base(p, ".o")
                    nas += 1
                    tu["as"] = "as#%d" % nas
                    steps.append(tu["as"])
                    ntemps += 1
                elif mode == "link":
                    nas += 1
                    tu["as"] = "as#%d" % nas
                    steps.append(tu["as"])
                    ntemps += 2
            elif ext == ".s":
                if mode == "c":
                    tu["output"] = out or base(p, ".o")
                if mode in ("c", "link"):
                    nas += 1
                    tu["as"] = "as#%d" % nas
                    steps.append(tu["as"])
                    if mode == "link":
                        ntemps += 1
            tus.append(tu)
        if mode == "link" and (inputs or items):     # (a command made of -l / -Wl, arguments alone still links)
            steps.append("ld#1")
        if mode == "E" and out:
            requested.append(out)
        if mode == "M" and (mf or out) and inputs:
            requested.append(mf or out)
        if md and mode != "M":
            # -MD: one dependency file per C translation unit, named after -MF, else after -o, else after the input (always in the cwd)
            for tu in tus:
                if tu["ext"] == ".c":
                    d = mf or base(out or tu["input"], ".d")
                    if d not in requested:
                        requested.append(d)
        for tu in tus:
            if tu["output"] and tu["output"] not in requested:
                requested.append(tu["output"])
        if mode == "link" and (inputs or items):
            requested.append(out or "a.out")
    return {"mode": mode, "out": out, "inputs": inputs, "refused": refused, "tus": tus, "steps": steps, "requested": requested, "ntemps": ntemps,
            "items": items, "xtoks": xtoks}


# ====================================================================================== the simulated machine
def unesc(s):
    if s == "%e":
        return ""
    out = bytearray()
    i = 0
    b = s.encode()
    while i < len(b):
        if b[i] == 0x25 and i + 2 < len(b) + 0:
            out.append(int(b[i + 1:i + 3], 16))
            i += 3
        else:
            out.append(b[i])
            i += 1
    return out.decode(errors="replace")


class Proc:
    __slots__ = ("conn", "buf", "pid", "ppid", "inv", "role", "state", "req", "nev", "kcount", "parent", "live_children", "dead_unreaped",
                 "exit_event", "injected_end", "events", "pending_children", "label", "execd", "exec_failed", "stopped")

    def __init__(self, conn):
        self.conn = conn
        self.buf = b""
        self.pid = self.ppid = -1
        self.inv = -1
        self.role = "?"
        self.state = "running"
        self.req = None
        self.nev = 0
        self.kcount = {}
        self.parent = None
        self.live_children = 0
        self.dead_unreaped = 0
        self.exit_event = None
        self.injected_end = None
        self.events = []
        self.label = "?"
        self.execd = False
        self.exec_failed = False
        self.stopped = False


class Machine:
    """one execution of a set of driver invocations in one directory under the controller"""

    def __init__(self, env, wdir, scn, which, sched, trace=False):
        self.env = env            # dict: cc, tools dirs, libvsim, private_tmp
        self.wdir = wdir
        self.scn = scn
        self.which = which        # list of invocation indices to run in this execution
        self.sched = sched        # {"kind":..., "seed":...} or {"kind":"replay","choices":[...]}
        self.trace = trace
        self.log = []             # canonical event log
        self.choices = []         # invocation index chosen at each decision
        self.procs = []
        self.by_pid = {}
        self.nevents = 0
        self.fault_fired = []     # (inv, fault index, what)
        self.inv_state = {}
        self.context_switches = 0
        self.interleaved_with_temps = 0

    # ---------- files
    def setup_fs(self):
        cwd = os.path.join(self.wdir, "cwd")
        shutil.rmtree(cwd, ignore_errors=True)
        os.makedirs(cwd)
        for name, kind in sorted(self.scn["files"].items()):
            p = os.path.normpath(os.path.join(cwd, name))
            os.makedirs(os.path.dirname(p), exist_ok=True)
            if kind == "dir":
                os.makedirs(p, exist_ok=True)
                continue
            ident = "".join(c for c in name if c.isalnum())
            data = "#define CFG 7\n" if kind == "cfgheader" else '#include "config.h"\n' if kind == "apiheader" else "#!/bin/sh\nexit 0\n" if kind == "script" else "#define COMMON 7\n" if kind == "header" else "#define EXTRA 11\n" if kind == "header2" else "keep\n" if kind == "text" else file_content(kind, ident)
            with open(p, "w") as f:
                f.write(data)
            if kind == "script":
                os.chmod(p, 0o755)
        for name, data in sorted(self.scn["pre"].items()):
            with open(os.path.join(cwd, name), "w") as f:
                f.write(data)
        if self.env["private_tmp"]:
            for top in ("/tmp", "/var/tmp"):
                for f in os.listdir(top):
                    p = os.path.join(top, f)
                    if os.path.isdir(p) and not os.path.islink(p):
                        shutil.rmtree(p, ignore_errors=True)
                    else:
                        try:
                            os.unlink(p)
                        except OSError:
                            pass
            os.makedirs("/var/tmp/td", exist_ok=True)
        self.cwd = cwd
        self.before = snapshot(cwd)
        self.tmp_before = snapshot_tmp() if self.env["private_tmp"] else {}

    # ---------- protocol
    def send(self, p, line):
        try:
            p.conn.sendall(line.encode() + b"\n")
        except OSError:
            pass

    def read_proc(self, p):
        try:
            data = p.conn.recv(65536)
        except (ConnectionResetError, OSError):
            data = b""
        if not data:
            self.on_eof(p)
            return
        p.buf += data
        while b"\n" in p.buf:
            line, p.buf = p.buf.split(b"\n", 1)
            self.on_line(p, line.decode(errors="replace"))

    def on_eof(self, p):
        if p.state == "dead":
            return
        p.state = "dead"
        try:
            self.sel.unregister(p.conn)
        except Exception:
            pass
        p.conn.close()
        if p.parent:
            p.parent.live_children -= 1
            p.parent.dead_unreaped += 1
        if p.label == "driver":
            # a command has returned when its driver has: whoever of its children is still running then was not waited for
            alive = [c.label for c in self.procs if c.parent is p and c.state != "dead"]
            if alive:
                self.inv_state[p.inv]["orphans"] += alive
            for c in self.procs:
                if c.parent is p and c.stopped:
                    c.stopped = False
                    os.kill(c.pid, signal.SIGCONT)
        how = "after-" + (p.exit_event or "nothing")
        if p.injected_end:
            how = p.injected_end
        elif not p.exit_event:
            how = "crashed"   # died without announcing exit: a real signal (e.g. stack overflow in cc1)
        self.ev(p, "end", how)
        st = self.inv_state[p.inv]
        st["ended"].append((p.label, how))

    def on_line(self, p, line):
        w = line.split(" ")
        if w[0] == "HELLO":
            how = w[4]
            if how != "exec":
                p.pid, p.ppid = int(w[1]), int(w[2])
            if p.inv < 0:
                p.inv = int(w[3]) if w[3] != "-" else -1
            if how == "child":
                par = self.by_pid.get(p.ppid)
                p.parent = par
                if par:
                    par.live_children += 1
                    st = self.inv_state[p.inv]
                    st["nfork"] += 1
                    p.role = p.label = "pre#%d" % st["nfork"]
                self.pending_hello -= 1
            elif how == "new":
                p.role = p.label = "driver"
                self.pending_hello -= 1
            elif how == "exec":
                if p.pid != -1 and int(w[1]) != p.pid:
                    # a process that did not come out of fork() (vfork/posix_spawn/clone) is using its parent's
                    # connection: the shim does not cover that way of starting a child, so this run decides nothing
                    raise Inconclusive("a child process was created without fork(); the seam does not cover it")
                p.nev = 0
                p.kcount = {}
                p.exit_event = None
                p.execd = True
            self.by_pid[p.pid] = p
        elif w[0] == "REQ":
            p.req = (w[1], [unesc(x) for x in w[2:]])
            p.state = "parked"
            if w[1] == "start":
                args = p.req[1][1:]
                st = self.inv_state[p.inv]
                base = os.path.basename(args[0]) if args else "?"
                if p.role != "driver" or p.label.startswith("pre#"):
                    if "-cc1" in args:
                        role = "cc1"
                    elif base in ("as", "ld"):
                        role = base
                    else:
                        role = "other"
                    st["count"][role] = st["count"].get(role, 0) + 1
                    p.role = role
                    p.label = "%s#%d" % (role, st["count"][role])
                    st["children"].append({"label": p.label, "argv": args})
        elif w[0] == "RES":
            if p.events:
                p.events[-1]["res"] = " ".join(w[1:])
            if w[1] == "fault-fired":
                self.fault_fired.append((p.inv, p.label, " ".join(w[2:])))
                self.inv_state[p.inv]["fired"].append((p.label, " ".join(w[2:])))
            if w[1] == "mkstemp" and int(w[2]) >= 0:
                self.inv_state[p.inv]["temps"].append(unesc(w[3]))
            if w[1] == "execvp" and int(w[2]) < 0:
                p.exec_failed = True
            if w[1] == "created" and len(w) >= 4:
                self.inv_state[p.inv]["created"].append((w[2], unesc(w[3])))
            if w[1] == "wait" and int(w[2]) > 0 and (int(w[3]) & 0xff) == 0x7f:
                pass        # a stopped child was reported (WUNTRACED): nobody has been reaped
            elif w[1] == "wait" and int(w[2]) > 0:
                p.dead_unreaped -= 1
                self.inv_state[p.inv]["waits"].append((int(w[2]), int(w[3])))
            if w[1] == "fopen" and p.events:
                p.events[-1]["ok"] = int(w[2]) == 0

    def ev(self, p, kind, detail):
        self.log.append("%d %s %s %s" % (p.inv, p.label, kind, detail))
        if self.trace:
            print("    [%3d] inv%d %-8s %-8s %s" % (len(self.log), p.inv, p.label, kind, detail))

    def quiesce(self):
        deadline = time.monotonic() + 20
        while self.pending_hello > 0 or any(p.state == "running" for p in self.procs):
            t = deadline - time.monotonic()
            if t <= 0:
                raise Inconclusive("a process did not reach its next libc call within 20 s")
            for key, _ in self.sel.select(timeout=min(t, 5)):
                if key.data is None:
                    conn, _ = self.srv.accept()
                    p = Proc(conn)
                    self.procs.append(p)
                    self.sel.register(conn, selectors.EVENT_READ, p)
                else:
                    self.read_proc(key.data)

    def grantable(self, p):
        if p.state != "parked" or p.stopped:
            return False
        if p.req[0] == "wait":
            wants_stops = bool(p.req[1]) and p.req[1][0] == "1"
            return p.dead_unreaped > 0 or p.live_children == 0 or (wants_stops and any(c.parent is p and c.stopped for c in self.procs))
        if p.req[0] == "spawnwait":
            # posix_spawn emulation: the parent may go on once its child has exec'ed, failed to exec, or died
            c = self.by_pid.get(int(p.req[1][0]))
            return c is not None and (c.state == "dead" or c.execd or c.exec_failed)
        return True

    # ---------- faults
    def fault_for(self, p, kind):
        """fault op attached to this event of this process, if any"""
        for fi, f in enumerate(self.scn["invocations"][p.inv]["faults"]):
            if f["proc"] != p.label:
                continue
            if f["ev"] == "*":
                if p.nev != f["n"]:
                    continue
                if kind in ("exit", "_exit"):
                    continue   # it is ending anyway
            elif f["ev"] != kind or p.kcount.get(kind, 0) != f["n"]:
                continue
            if (p.inv, fi) in self.used_faults:
                continue
            return fi, f
        return None, None

    def grant(self, p):
        kind, args = p.req
        ekind = kind
        if kind == "fopen":
            ekind = "fopen-w" if args[1][0] in "wa" else "fopen-r"
        p.nev += 1
        p.kcount[ekind] = p.kcount.get(ekind, 0) + 1
        self.nevents += 1
        st = self.inv_state[p.inv]
        reply = "GO"
        detail = " ".join(self.canon(a) for a in (args[1:] if kind == "start" else args))[:300]
        if kind == "spawnwait":   # real pids never enter the canonical log
            c = self.by_pid.get(int(args[0]))
            detail = c.label if c else "?"
        fi, f = self.fault_for(p, ekind)
        if f:
            act = f["act"]
            ok = True
            if act == "die" and p.role != "driver":
                reply = "DIE %d" % f["sig"]
                p.injected_end = "killed-%s" % SIGNAME.get(f["sig"], f["sig"])
            elif act == "exit" and p.role != "driver":
                reply = "EXIT %d" % f["status"]
                p.injected_end = "exit-%d-injected" % f["status"]
            elif act == "stop" and p.role != "driver" and p.parent is not None and kind not in ("exit", "_exit"):
                # job control / a debugger stops the child here. A parent that waits with WUNTRACED hears about it; for everybody
                # else nothing has happened and the child goes on at once
                self.used_faults.add((p.inv, fi))
                self.fault_fired.append((p.inv, p.label, "stop at %s" % ekind))
                par = p.parent
                if par.state == "parked" and par.req and par.req[0] == "wait" and par.req[1] and par.req[1][0] == "1":
                    os.kill(p.pid, signal.SIGSTOP)
                    p.stopped = True
                    p.nev -= 1
                    p.kcount[ekind] -= 1
                    self.nevents -= 1
                    self.ev(p, "stopped", "before " + ekind)
                    return
                f = None
            elif act == "callockill" and kind == "start":
                reply = "GO ck=%d cksig=%d" % (f["k"], f["sig"])
                ok = False  # counts as fired only when the k-th allocation is reached
            elif act == "fail" and kind in ("fopen", "fork", "execvp", "mkstemp", "unlink"):
                reply = "FAIL %d" % f["errno"]
            elif act == "wbudget" and ekind == "fopen-w":
                reply = "GO wb=%d err=%d" % (f["bytes"], f["errno"])
                ok = False
            elif act == "rbudget" and ekind == "fopen-r":
                reply = "GO rb=%d err=%d" % (f["bytes"], f["errno"])
                ok = False
            elif act == "closefail" and ekind == "fopen-w":
                reply = "GO cf=1 err=%d" % f["errno"]
                ok = False
            else:
                f = None
            if f:
                self.used_faults.add((p.inv, fi))
                if ok:
                    st["fired"].append((p.label, "%s %s" % (act, ekind)))
                    self.fault_fired.append((p.inv, p.label, "%s at %s" % (act, ekind)))
        if kind == "mkstemp" and reply == "GO":
            # names are never reissued within a scenario. (Reissuing the lowest free name was tried: it turns the
            # universal practice "the driver unlinks at exit a temporary that a failing assembler has already removed"
            # into certain interference, which real mkstemp makes a 1-in-62^6 event -- that demands more than the
            # property states. What a driver must not do is covered by an explicit rule instead, see O5b in check().)
            self.ntemp += 1
            reply = "GO name=%s%04d" % (self.env["wid"], self.ntemp)
        if kind == "fork" and reply == "GO":
            self.pending_hello += 1
        if kind in ("exit", "_exit"):
            p.exit_event = "%s-%s" % (kind, args[0])
            st["exits"].append((p.label, kind, int(args[0])))
        if kind == "fopen":
            st["opens"].append((p.label, ekind, args[0]))
        if kind == "unlink" and p.label == "driver" and reply == "GO":
            st["unlinks"].append(args[0])
        e = {"kind": ekind, "args": detail, "reply": reply.split(" name=")[0]}
        p.events.append(e)
        self.ev(p, ekind, detail + " -> " + e["reply"])
        p.state = "running"
        p.req = None
        self.send(p, reply)

    def canon(self, s):
        # make logs independent of the sandbox location and of the worker that ran them
        s = s.replace(self.cwd, "$CWD").replace(self.env["sdir"], "$S")
        return re.sub(r"chibicc-%s(\d{4})" % self.env["wid"], r"chibicc-T\1", s)

    def canon_stderr(self, i, s):
        # temporaries are numbered per scenario; name them per invocation so that an invocation's
        # diagnostics can be compared between the interleaved and the lone execution
        s = self.canon(s)
        for k, t in enumerate(self.inv_state[i]["temps"]):
            s = s.replace(self.canon(t), "$TEMP%d" % (k + 1))
        return s

    # ---------- scheduling: the only choice is which invocation's (single) grantable process runs
    def choose(self, cands):
        invs = sorted(set(p.inv for p in cands))
        k = self.sched["kind"]
        if k == "replay":
            ch = self.sched["choices"]
            want = ch[self.nchoice] if self.nchoice < len(ch) else invs[0]
            pick = want if want in invs else invs[want % len(invs)]
        elif k == "serial":
            pick = invs[0]
        elif k == "sticky":
            pick = self.last if (self.last in invs and self.rng.below(8)) else self.rng.pick(invs)
        elif k == "prio":
            if self.rng.below(25) == 0:
                self.prio[self.rng.pick(invs)] -= 10
            pick = max(invs, key=lambda i: (self.prio[i], -i))
        else:
            pick = self.rng.pick(invs)
        self.nchoice += 1
        self.choices.append(pick)
        if self.last is not None and pick != self.last and self.last in invs:
            self.context_switches += 1
            if self.inv_state[self.last]["temps"] and self.inv_state[pick]["temps"]:
                self.interleaved_with_temps += 1
        self.last = pick
        c = [p for p in cands if p.inv == pick]
        return sorted(c, key=lambda p: p.label)[0]

    def run(self):
        self.setup_fs()
        sock = os.path.join(self.wdir, "ctl.sock")
        if os.path.exists(sock):
            os.unlink(sock)
        self.srv = socket.socket(socket.AF_UNIX, socket.SOCK_STREAM)
        self.srv.bind(sock)
        self.srv.listen(64)
        self.sel = selectors.DefaultSelector()
        self.sel.register(self.srv, selectors.EVENT_READ, None)
        self.rng = Rng(self.sched.get("seed", 1))
        self.prio = dict((i, 100 - self.rng.below(50)) for i in self.which)
        self.last = None
        self.nchoice = 0
        self.ntemp = 0
        self.used_faults = set()
        self.pending_hello = 0
        popen = {}
        env = {"PATH": self.env["tools"][self.scn["tools"]] + ":/usr/bin:/bin", "LD_PRELOAD": self.env["libvsim"], "VSIM_SOCK": sock,
               "HOME": "/nonexistent", "LANG": "C", "TMPDIR": "/var/tmp/td"}
        outs = {}
        try:
            for i in self.which:
                inv = self.scn["invocations"][i]
                self.inv_state[i] = {"nfork": 0, "count": {}, "children": [], "ended": [], "fired": [], "temps": [], "waits": [], "exits": [], "opens": [], "unlinks": [], "orphans": [], "created": []}
                so = open(os.path.join(self.wdir, "stdout.%d" % i), "wb") if inv["stdout"] != "devfull" else open("/dev/full", "wb")
                se = open(os.path.join(self.wdir, "stderr.%d" % i), "wb") if inv.get("stderr", "file") == "file" else open("/dev/full", "wb") if inv["stderr"] == "devfull" else broken_pipe()
                if inv.get("stderr", "file") != "file":
                    open(os.path.join(self.wdir, "stderr.%d" % i), "wb").close()
                outs[i] = (so, se)
                e = dict(env)
                e["VSIM_TAG"] = str(i)
                self.pending_hello += 1
                if inv.get("argv0") == "bare":      # found through PATH, as users do: argv[0] has no slash in it
                    e["PATH"] = e["PATH"] + ":" + os.path.dirname(self.env["cc"])
                popen[i] = subprocess.Popen([("chibicc" if inv.get("argv0") == "bare" else self.env["cc"])] + inv["argv"], executable=self.env["cc"], cwd=self.cwd, env=e, stdin=subprocess.DEVNULL, stdout=so, stderr=se,
                                            start_new_session=True, preexec_fn=pre_exec(inv))
            verdict = None
            while True:
                self.quiesce()
                live = [p for p in self.procs if p.state != "dead"]
                if not live:
                    break
                cands = [p for p in live if self.grantable(p)]
                if not cands and any(p.stopped for p in live):
                    for p in live:
                        if p.stopped:       # whoever stopped it continues it eventually
                            p.stopped = False
                            os.kill(p.pid, signal.SIGCONT)
                            self.ev(p, "continued", "")
                    continue
                if not cands:
                    verdict = ("deadlock", "live processes but none can be granted: " + ", ".join("inv%d %s waits at %s" % (p.inv, p.label, p.req[0]) for p in live))
                    break
                if self.nevents >= EVENT_CAP:
                    verdict = ("no-termination", "more than %d events" % EVENT_CAP)
                    break
                self.grant(self.choose(cands))
            status = {}
            for i, po in popen.items():
                if verdict:
                    try:
                        os.killpg(po.pid, signal.SIGKILL)
                    except OSError:
                        pass
                try:
                    status[i] = po.wait(timeout=20)
                except subprocess.TimeoutExpired:
                    raise Inconclusive("driver did not exit")
        finally:
            for i, po in popen.items():
                if po.poll() is None:
                    try:
                        os.killpg(po.pid, signal.SIGKILL)
                    except OSError:
                        pass
                    po.wait()
            for so, se in outs.values():
                so.close()
                se.close()
            for p in self.procs:
                try:
                    p.conn.close()
                except Exception:
                    pass
            self.sel.close()
            self.srv.close()
        texts, modes = {}, {}
        res = {"verdict": verdict, "status": status, "after": snapshot(self.cwd, texts, modes), "after_text": texts, "after_mode": modes, "tmp_after": snapshot_tmp() if self.env["private_tmp"] else {},
               "before": self.before, "tmp_before": self.tmp_before, "inv": self.inv_state, "log": self.log, "choices": self.choices,
               "loghash": sha("\n".join(self.log)), "stderr": {}, "stdout": {}, "events": self.nevents,
               "context_switches": self.context_switches, "interleaved_with_temps": self.interleaved_with_temps, "fault_fired": list(self.fault_fired)}
        for i in self.which:
            res["stderr"][i] = self.canon_stderr(i, open(os.path.join(self.wdir, "stderr.%d" % i), errors="replace").read())
            if self.scn["invocations"][i]["stdout"] in ("file", "closed"):
                res["stdout"][i] = open(os.path.join(self.wdir, "stdout.%d" % i), errors="replace").read()
            else:
                res["stdout"][i] = None
        return res


def broken_pipe():
    """the write end of a pipe nobody reads any more (`cc ... 2>&1 | head`): whoever writes to it gets SIGPIPE"""
    rd, wr = os.pipe()
    os.close(rd)
    return os.fdopen(wr, "wb")


def close_stdout():
    os.close(1)


def close_stdin():
    os.close(0)


def pre_exec(inv, reference=False):
    def f():
        os.umask(0o022)
        if inv["stdout"] == "closed":
            os.close(1)
        elif inv.get("stdin") == "closed":
            os.close(0)
        if inv.get("sigchld") == "ignored" and not reference:
            import signal
            signal.signal(signal.SIGCHLD, signal.SIG_IGN)
    return f


def snapshot_tmp():
    """everything in the private /tmp and /var/tmp, directories included (a left-over directory is a left-over too)"""
    out = {}
    for top in ("/tmp", "/var/tmp"):
        for root, dirs, fs in os.walk(top):
            for x in dirs + fs:
                out[os.path.join(root, x)] = 1
    out.pop("/var/tmp/td", None)
    return out


def snapshot(d, texts=None, modes=None):
    out = {}
    for root, dirs, fs in os.walk(d):
        for f in fs:
            p = os.path.join(root, f)
            rel = os.path.relpath(p, d)
            try:
                if os.path.islink(p):
                    out[rel] = "link:" + os.readlink(p)
                else:
                    with open(p, "rb") as fh:
                        data = fh.read()
                    out[rel] = hashlib.sha1(data).hexdigest()[:16]
                    if modes is not None:
                        modes[rel] = os.stat(p).st_mode & 0o777
                    if texts is not None and rel.endswith((".d", ".dm", ".i")) and len(data) < 200000:
                        texts[rel] = data.decode(errors="replace")
            except OSError as e:
                out[rel] = "unreadable:%s" % e.errno
    return out


# ====================================================================================== oracle
MODEL_CACHE = {}


def reference_run(env, wdir, scn, i, cache):
    """the same command, alone, fault-free, with no simulator: what success looks like"""
    inv = scn["invocations"][i]
    m = model(inv, scn["files"])
    used = sorted((n, scn["files"].get(n)) for n in scn["files"])
    key = json.dumps([scn["tools"], inv["argv"], inv["stdout"], inv.get("stdin"), inv.get("argv0"), used], sort_keys=True)
    if key in cache:
        return cache[key]
    mach = Machine(env, wdir, {"files": scn["files"], "pre": {}, "tools": scn["tools"], "invocations": scn["invocations"]}, [i], {"kind": "serial"})
    mach.setup_fs()
    # (the shim is loaded but inactive without VSIM_SOCK; it still refuses to unlink device nodes)
    e = {"PATH": env["tools"][scn["tools"]] + ":/usr/bin:/bin", "HOME": "/nonexistent", "LANG": "C", "TMPDIR": "/var/tmp/td", "LD_PRELOAD": env["libvsim"]}
    so = open(os.path.join(wdir, "ref.stdout"), "wb") if inv["stdout"] != "devfull" else open("/dev/full", "wb")
    with so, open(os.path.join(wdir, "ref.stderr"), "wb") as se:
        try:
            if inv.get("argv0") == "bare":
                e["PATH"] = e["PATH"] + ":" + os.path.dirname(env["cc"])
            rc = subprocess.run([("chibicc" if inv.get("argv0") == "bare" else env["cc"])] + inv["argv"], executable=env["cc"], cwd=mach.cwd, env=e, stdin=subprocess.DEVNULL, stdout=so, stderr=se, timeout=60,
                                preexec_fn=pre_exec(inv, reference=True)).returncode
        except subprocess.TimeoutExpired:
            raise Inconclusive("reference run timed out")
    after = snapshot(mach.cwd)
    ref = {"status": rc, "outputs": dict((o, after.get(o)) for o in m["requested"]),
           "stdout": open(os.path.join(wdir, "ref.stdout"), errors="replace").read() if inv["stdout"] != "devfull" else None}
    cache[key] = ref
    return ref


# ---- independent content model (stub tools): what each requested output must contain, derived from single-unit
# reference compilations and from a re-implementation of what the stub assembler / linker write. The lone-run
# comparison above cannot see a driver that is *consistently* wrong (outputs swapped, objects linked in another order).
def fnv_stub(datas):
    h = 0xcbf29ce484222325
    n_as = 0
    chunks = 0
    for d in datas:
        for b in d:
            h = ((h ^ b) * 0x100000001b3) & 0xFFFFFFFFFFFFFFFF
        n_as += len(d)
        chunks += (len(d) + 4095) // 4096
    return h, n_as, chunks


def stub_as_output(asm):
    h, n, _ = fnv_stub([asm])
    out = "OBJ %d %016x\n" % (n, h)
    for i in range(40):
        out += "pad %d....................................................................\n" % i
    return out.encode()


def stub_ld_output(seq, xtoks=()):
    """seq: objects (bytes) and option tokens (str) in the order the linker must see them"""
    h = 0xcbf29ce484222325
    chunks = 0
    for d in seq:
        if isinstance(d, str):
            d = d.encode() + b"\n"
        else:
            chunks += (len(d) + 4095) // 4096
        for b in d:
            h = ((h ^ b) * 0x100000001b3) & 0xFFFFFFFFFFFFFFFF
    for t in xtoks:
        if t.startswith("--vsimx"):
            for b in t.encode() + b"\n":
                h = ((h ^ b) * 0x100000001b3) & 0xFFFFFFFFFFFFFFFF
    return ("EXE %d %016x\n" % (chunks, h)).encode()


def compile_flags(argv):
    """the options that can influence what cc1 emits (everything but mode, -o, dependency options and inputs)"""
    out = []
    i = 0
    while i < len(argv):
        a = argv[i]
        if a in ("-o", "-MF", "-MT", "-MQ"):
            i += 2
            continue
        if a in ("-D", "-U", "-I", "-idirafter", "-include", "-x"):
            out += [a, argv[i + 1]]
            i += 2
            continue
        if a in ("-L", "-Xlinker"):
            i += 2
            continue
        if a.startswith("-") and not a.startswith(("-o", "-l", "-Wl,", "-L")) and a not in ("-E", "-S", "-c", "-M", "-MD", "-MP", "-MMD", "-s", "-static", "-shared"):
            out.append(a)
        i += 1
    return out


def reference_asm(env, wdir, scn, inp, flags, cache):
    key = json.dumps(["asm", inp, scn["files"].get(inp), flags, sorted(scn["files"].items())])
    if key in cache:
        return cache[key]
    mach = Machine(env, wdir, {"files": scn["files"], "pre": {}, "tools": "stub", "invocations": []}, [], {"kind": "serial"})
    mach.setup_fs()
    e = {"PATH": env["tools"]["stub"] + ":/usr/bin:/bin", "HOME": "/nonexistent", "LANG": "C", "TMPDIR": "/var/tmp/td", "LD_PRELOAD": env["libvsim"]}
    try:
        p = subprocess.run([env["cc"]] + flags + ["-S", inp, "-o", "ref.model.s"], cwd=mach.cwd, env=e, stdin=subprocess.DEVNULL, stdout=subprocess.PIPE, stderr=subprocess.PIPE, timeout=60)
    except subprocess.TimeoutExpired:
        raise Inconclusive("reference compilation timed out")
    asm = None
    if p.returncode == 0:
        try:
            asm = open(os.path.join(mach.cwd, "ref.model.s"), "rb").read()
        except OSError:
            asm = None
    cache[key] = asm
    return asm


def expected_contents(env, wdir, scn, inv, m, cache):
    """{requested output: sha1 prefix of the bytes it must hold} for a successful stub-tool command, or None if unknown"""
    if scn["tools"] != "stub" or m["mode"] not in ("S", "c", "link") or m["refused"]:
        return None
    flags = compile_flags(inv["argv"])
    objs = []
    exp = {}
    for tu in m["tus"]:
        objs.append(None)
        p = tu["input"]
        kind = scn["files"].get(p)
        if tu["ext"] == ".c":
            asm = reference_asm(env, wdir, scn, p, flags, cache)
            if asm is None:
                return None
            if m["mode"] == "S":
                exp[tu["output"]] = asm
                continue
            obj = stub_as_output(asm)
        elif tu["ext"] == ".s":
            if m["mode"] == "S":
                continue
            if kind is None or kind in ("dir", "missing"):
                return None
            obj = stub_as_output(file_content(kind, "".join(c for c in p if c.isalnum())).encode())
        elif tu["ext"] == ".o":
            if kind is None or kind in ("dir", "missing"):
                return None
            obj = file_content(kind, "".join(c for c in p if c.isalnum())).encode()
        else:
            return None
        if m["mode"] == "c":
            if tu["output"]:
                exp[tu["output"]] = obj
        else:
            objs[-1] = obj
    if m["mode"] == "link" and (m["inputs"] or m["items"]):
        seq = []
        for what, x in m["items"]:
            if what == "in":
                if objs[x] is None:
                    return None
                seq.append(objs[x])
            elif x.startswith(("-lvsim", "--vsimw")):
                seq.append(x)
        exp[m["out"] or "a.out"] = stub_ld_output(seq, m["xtoks"])
    return dict((k, hashlib.sha1(v).hexdigest()[:16]) for k, v in exp.items())


def unit_marker(scn, name):
    kind = scn["files"].get(name)
    ident = "".join(c for c in name if c.isalnum())
    return {"valid": "fn_" + ident, "valid3": "fn3_" + ident, "valid2": "g_" + ident}.get(kind)


def own_unit_check(scn, inv, m, i, res):
    v = []
    cs = [tu["input"] for tu in m["tus"] if tu["ext"] == ".c"]
    if m["mode"] == "E":
        text = res["after_text"].get(m["out"]) if m["out"] else (res["stdout"].get(i) if inv["stdout"] == "file" else None)
        if text is not None:
            pos = -1
            for name in cs:
                mk = unit_marker(scn, name)
                if not mk:
                    continue
                needle = mk + ("(" if not mk.startswith("g_") else " ")
                k = text.find(needle)
                k2 = text.find(needle, pos + 1)
                if k < 0:
                    v.append(("O4-output-has-wrong-content", i, "exit 0 but the preprocessed text does not contain the text of %s" % name))
                elif k2 < 0:
                    v.append(("O4-output-has-wrong-content", i, "exit 0 but the preprocessed text of %s does not come after that of the inputs named before it" % name))
                pos = max(pos, k2)
    # dependency rules: the file written for a unit (or the rule printed for it) names that unit's source
    rules = []
    if m["mode"] == "M":
        text = None
        for o in m["requested"]:
            text = res["after_text"].get(o)
        if not m["requested"] and inv["stdout"] == "file":
            text = res["stdout"].get(i)
        if text is not None and len(cs) == 1:
            rules.append((cs[0], text))
    elif any(a in ("-MD", "-MMD") for a in inv["argv"]) and m["mode"] in ("S", "c", "link"):
        mf = None
        for k, a in enumerate(inv["argv"]):
            if a == "-MF":
                mf = inv["argv"][k + 1]
        for name in cs:
            b = os.path.basename(m["out"] or name)
            d = mf or ((b[:b.rindex(".")] if "." in b else b) + ".d")
            if (len(cs) == 1 or not (mf or m["out"])) and d in res["after_text"]:
                rules.append((name, res["after_text"][d]))
    for name, text in rules:
        flat = text.replace("\\\n", " ").replace("\\ ", " ").replace("$$", "$").replace("\\#", "#")
        # (-MMD leaves out whatever lies under an include directory, and chibicc counts -I directories: `-MMD -I. ./x.c` writes a rule
        # without x.c. What -MMD lists is a matter of dependency output, not of which unit a file belongs to, so only -MD / -M rules
        # are required to name their source; no rule may name another unit's.)
        if os.path.basename(name) not in flat and "-MMD" not in inv["argv"]:
            v.append(("O4-output-has-wrong-content", i, "exit 0 but the dependency rule written for %s does not mention it: %s" % (name, flat[:200])))
        others = [n for n in cs if os.path.basename(n) != os.path.basename(name) and os.path.basename(n) not in os.path.basename(name)]
        for n in others:
            if re.search(r"(^|[\s/])" + re.escape(os.path.basename(n)) + r"(\s|$)", flat):
                v.append(("O4-output-has-wrong-content", i, "exit 0 but the dependency rule written for %s mentions %s, another unit of the command" % (name, n)))
    return v


def tool_cmdline_check(inv, m, i, st):
    v = []
    argv = inv["argv"]
    userL = []
    for k, a in enumerate(argv):
        if a == "-L" and k + 1 < len(argv):
            userL.append(argv[k + 1])
        elif a.startswith("-L") and len(a) > 2:
            userL.append(a[2:])
    for c in st["children"]:
        a = c["argv"]
        lab = c["label"]
        if not (lab.startswith("as#") or lab.startswith("ld#")):
            continue
        outs = [a[k + 1] for k in range(len(a) - 1) if a[k] == "-o"]
        if len(outs) != 1:
            v.append(("O6-tool-command-line", i, "%s is given %d -o options: %s" % (lab, len(outs), " ".join(a[:12]))))
            continue
        temps = [x for x in a[1:] if x.startswith("/tmp/chibicc-")]
        if len(set(temps)) != len(temps):
            v.append(("O6-tool-command-line", i, "%s is given the same temporary twice" % lab))
        stale = [x for x in temps if x not in st["temps"]]
        if stale:
            v.append(("O6-tool-command-line", i, "%s is given %s, which this invocation never created" % (lab, mach_canon(stale[0]))))
        if lab.startswith("as#"):
            ins = [x for k, x in enumerate(a[1:], 1) if not x.startswith("-") and a[k - 1] != "-o"]
            if len(ins) != 1:
                v.append(("O6-tool-command-line", i, "%s is given %d inputs" % (lab, len(ins))))
            tu = next((t for t in m["tus"] if t["as"] == lab), None)
            if tu and m["mode"] == "c" and tu["output"] and os.path.normpath(outs[0]) != os.path.normpath(tu["output"]):
                v.append(("O6-tool-command-line", i, "%s writes %s, the unit's object is %s" % (lab, outs[0], tu["output"])))
        else:
            want = m["out"] or "a.out"
            if os.path.normpath(outs[0]) != os.path.normpath(want):
                v.append(("O6-tool-command-line", i, "the linker writes %s, requested is %s" % (outs[0], want)))
            for flag in ("-static", "-shared", "-s"):
                if (flag in argv) != (flag in a[1:]):
                    v.append(("O6-tool-command-line", i, "%s %s to the linker although the command line %s it" % (flag, "passed" if flag in a else "not passed", "has" if flag in argv else "does not have")))
            gotL = []
            for k, x in enumerate(a):
                if x == "-L" and k + 1 < len(a):
                    gotL.append(a[k + 1])
                elif x.startswith("-L") and len(x) > 2:
                    gotL.append(x[2:])
            it = iter(gotL)
            if not all(any(u == g for g in it) for u in userL):
                v.append(("O6-tool-command-line", i, "the -L directories of the command line (%s) do not reach the linker in that order: %s" % (" ".join(userL), " ".join(gotL))))
    return v


def failed_steps(scn, i, st, m):
    """which pipeline steps failed, judged from what was observed and what was injected"""
    failed = []
    for label, how in st["ended"]:
        if label == "driver":
            continue
        if how.startswith("killed-") or how == "crashed":
            failed.append((label, how))
        elif how.startswith("exit-") and "injected" in how:
            failed.append((label, how))
        elif how.startswith("after-exit-") or how.startswith("after-_exit-"):
            code = int(how.rsplit("-", 1)[1])
            if code != 0:
                failed.append((label, "exit status %d" % code))
        elif how == "after-nothing":
            failed.append((label, how))
    for label, what in st["fired"]:
        failed.append((label, "injected: " + what))
    return failed


def mach_canon(path):
    return re.sub(r"chibicc-\d\d(\d{4})", r"chibicc-T\1", path)


def check(env, wdir, scn, res, solo, refs, which):
    """returns list of (class, invocation, text)"""
    v = []
    if res["verdict"]:
        v.append((res["verdict"][0], -1, res["verdict"][1]))
        return v
    requested_all = set()
    models = {}
    for i in which:
        models[i] = model(scn["invocations"][i], scn["files"])
        requested_all |= set(models[i]["requested"])
    for i in which:
        inv = scn["invocations"][i]
        m = models[i]
        st = res["inv"][i]
        status = res["status"][i]
        failed = failed_steps(scn, i, st, m)
        must_fail = list(failed)
        # objects and executables made by the real GNU tools embed the names of the temporaries they were
        # made from, so their bytes are compared only when the stub tools (content = hash of inputs) are used
        # (build note: that was chibicc's own defect -- no STT_FILE symbol, repaired by 811d6c4 -- so the bytes are compared for real tools too)
        byte_exact = True
        if m["refused"]:
            must_fail.append(("driver", "-o with several inputs and -c/-S/-E must be refused"))
        if inv["stdout"] in ("devfull", "closed") and ((m["mode"] == "E" and not m["out"]) or (m["mode"] == "M" and not m["requested"])):
            ok_tus = [c for c in st["children"] if c["label"].startswith("cc1")]
            if ok_tus and not failed:
                must_fail.append(("cc1", "standard output is /dev/full or closed: the text cannot be written"))
        # O1 status
        if must_fail and status == 0:
            v.append(("O1-exit-zero-after-failure", i, "exit status 0 although: " + "; ".join("%s %s" % f for f in must_fail[:4])))
        if not must_fail and status != 0:
            ref = refs.get(i)
            if ref is not None and ref["status"] == 0:
                v.append(("O1-nonzero-without-failure", i, "exit status %d but no step failed and the same command alone succeeds\nstderr: %s" % (status, res["stderr"][i][-300:])))
        # O2 a translation unit that failed to compile leaves its output alone
        for tu in m["tus"]:
            if not tu["cc1"]:
                continue
            cc1_failed = [f for f in failed if f[0] == tu["cc1"]]
            if not cc1_failed:
                continue
            targets = []
            if m["mode"] == "c" and tu["output"]:
                targets.append(tu["output"])          # written by as, which must not run on a failed compile
            elif m["mode"] == "link":
                targets.append(m["out"] or "a.out")   # no link without all objects
            elif (m["mode"] == "S" and tu["output"]) or (m["mode"] == "E" and m["out"]):
                if m["mode"] == "E":
                    tu = dict(tu, output=m["out"])    # -E -o FILE: the preprocessed text is this unit's output
                opened = any(lab == tu["cc1"] and k == "fopen-w" for lab, k, path in st["opens"])
                how = next((h for lab, h in st["ended"] if lab == tu["cc1"]), "")
                io_fault = any(lab == tu["cc1"] and w.split(" ")[0] in ("write", "close") for lab, w in st["fired"])
                if io_fault:
                    # the excuse holds only if the faulted stream was this unit's output: find which fopen-w the fault was attached to
                    wopens = [path for lab, k, path in st["opens"] if lab == tu["cc1"] and k == "fopen-w"]
                    hit = [f["n"] for f in inv["faults"] if f["proc"] == tu["cc1"] and f["ev"] == "fopen-w" and f["act"] in ("wbudget", "closefail")]
                    if hit and all(n <= len(wopens) and os.path.basename(wopens[n - 1]) != os.path.basename(tu["output"]) for n in hit):
                        io_fault = False
                diagnosed = how.startswith(("after-exit-", "after-_exit-")) and not io_fault
                # a compile error (any phase, code generation included) must leave the output alone whenever
                # the compiler chooses to open it; only a writer that was killed or hit an injected write
                # error after opening its output may leave a partial file
                if diagnosed or not opened:
                    targets.append(tu["output"])
            for t in targets:
                if t.startswith("/"):
                    continue
                b, a = res["before"].get(t), res["after"].get(t)
                if a != b:
                    v.append(("O2-output-of-failed-unit-touched", i, "%s failed (%s) but %s was %s" % (tu["cc1"], cc1_failed[0][1], t, "created" if b is None else "overwritten")))
        # O2b a unit whose pipeline never started leaves its output alone (nothing ran that could have produced it)
        started = set(c["label"] for c in st["children"])
        for tu in m["tus"]:
            if tu["output"] and not tu["output"].startswith("/") and not ((tu["cc1"] in started) or (tu["as"] in started)):
                if m["mode"] in ("S", "c") and res["before"].get(tu["output"]) != res["after"].get(tu["output"]) \
                        and not any(t2 is not tu and t2["output"] == tu["output"] for t2 in m["tus"]):
                    v.append(("O2-output-of-unstarted-unit-touched", i, "nothing was run for %s, yet %s changed" % (tu["input"], tu["output"])))
        if m["mode"] == "link" and (m["inputs"] or m["items"]) and not any(l.startswith("ld#") for l in started):
            t = m["out"] or "a.out"
            if not t.startswith("/") and res["before"].get(t) != res["after"].get(t):
                v.append(("O2-output-of-unstarted-unit-touched", i, "the linker was never started, yet %s changed" % t))
        # O4d units are compiled independently of each other: a source that does not compile alone (its header lies in another unit's
        # directory) does not compile in company either
        for tu in m["tus"]:
            if tu["cc1"] and scn["files"].get(tu["input"]) == "needcfg" and any(lab == tu["cc1"] and how.startswith(("after-exit-0", "after-_exit-0")) for lab, how in st["ended"]):
                if reference_asm(env, wdir, scn, tu["input"], compile_flags(inv["argv"]), MODEL_CACHE) is None:
                    v.append(("O4-unit-depends-on-other-units", i, "%s does not compile alone (config.h is not on its search path), yet cc1 accepted it in this command" % tu["input"]))
        # O4b a unit whose own steps all succeeded has its output, whatever happens to the units after it
        if m["mode"] in ("S", "c") and not m["refused"]:
            started_l = set(c["label"] for c in st["children"])
            failed_l = set(f[0] for f in failed)
            for tu in m["tus"]:
                steps_tu = [s for s in (tu["cc1"], tu["as"]) if s]
                if not tu["output"] or tu["output"].startswith("/") or not steps_tu:
                    continue
                if all(s in started_l for s in steps_tu) and not any(s in failed_l for s in steps_tu) \
                        and all(any(lab == s and how.startswith(("after-exit-0", "after-_exit-0")) for lab, how in st["ended"]) for s in steps_tu):
                    if res["after"].get(tu["output"]) is None and not any(t2 is not tu and t2["output"] == tu["output"] for t2 in m["tus"]):
                        v.append(("O4-output-of-successful-unit-missing", i, "every step for %s succeeded, yet %s does not exist when the command returns (status %d)" % (tu["input"], tu["output"], status)))
        # O4c what the command creates is as accessible as the caller's umask (022) allows: others can read it
        for o in m["requested"]:
            if o.startswith("/") or res["before"].get(o) is not None or res["after"].get(o) is None:
                continue
            mode = res.get("after_mode", {}).get(o)
            if mode is not None and (mode & 0o044) != 0o044:
                v.append(("O4-output-permissions", i, "%s is created with mode %03o under umask 022" % (o, mode)))
        # O1c the command is over when the driver exits: every step must have ended by then (and its status been seen)
        if st["orphans"] and not any(f.get("proc") == "driver" for f in inv["faults"]):
            v.append(("O1-driver-returns-before-its-steps-end", i, "the driver exited while %s was still running" % ", ".join(st["orphans"])))
        # O6 what the assembler and the linker are TOLD (the stubs only hash contents, and would not notice)
        v += tool_cmdline_check(inv, m, i, st)
        # O5b a driver gives each temporary name up once: after its own unlink the name may be handed to somebody
        # else by mkstemp, so unlinking it again can delete another invocation's file
        seen_u = set()
        for t in st["unlinks"]:
            if t in seen_u and t in st["temps"]:
                v.append(("O5-unlinks-a-temporary-it-gave-up", i, "the driver unlinks %s a second time; between the two calls the name is free for any other process" % mach_canon(t)))
                break
            seen_u.add(t)
        # O3 nothing the command made anywhere else is left: files that came into being through open/creat/mkdir/rename/link/symlink
        # directly, or through fopen outside the working directory and /tmp (both of which are compared as a whole further down)
        cwd_abs = os.path.join(wdir, "cwd")
        elsewhere = [(how, pth) for how, pth in st["created"]] + [("fopen", pth) for lab, k, pth in st["opens"] if k == "fopen-w" and pth.startswith("/")]
        for how, pth in elsewhere:
            np_ = os.path.normpath(pth)
            if np_.startswith(cwd_abs + "/") or np_.startswith("/tmp/") or np_.startswith("/dev/") or np_.startswith("/proc/"):
                continue
            if os.path.lexists(np_):
                v.append(("O3-stray-file", i, "%s (made by %s) is still there after the command" % (np_, how)))
                try:
                    if os.path.isdir(np_) and not os.path.islink(np_):
                        shutil.rmtree(np_, ignore_errors=True)
                    else:
                        os.unlink(np_)
                except OSError:
                    pass
        # O3 no temporaries (per invocation: every mkstemp name handed to it is gone)
        for t in st["temps"]:
            if os.path.exists(t):
                v.append(("O3-temporary-left", i, "temporary %s still exists after the driver exited with status %d" % (t, status)))
        # O4 success is exact
        if status == 0 and not must_fail:
            ref = refs.get(i)
            for o in m["requested"]:
                if o.startswith("/"):
                    continue
                if res["after"].get(o) is None:
                    v.append(("O4-requested-output-missing", i, "exit 0 but %s does not exist" % o))
                elif byte_exact and ref and ref["status"] == 0 and ref["outputs"].get(o) != res["after"].get(o):
                    v.append(("O4-output-differs-from-lone-run", i, "exit 0 but %s differs from what the same command produces alone" % o))
            if ref and ref["status"] == 0 and ref["stdout"] is not None and res["stdout"][i] is not None and ref["stdout"] != res["stdout"][i]:
                v.append(("O4-output-differs-from-lone-run", i, "standard output differs from the lone run"))
            # preprocessed text and dependency rules name their own translation unit, in command-line order: a driver that is
            # consistently wrong (units swapped, processed in another order) agrees with its own lone run
            v += own_unit_check(scn, inv, m, i, res)
            exp = expected_contents(env, wdir, scn, inv, m, MODEL_CACHE)
            if exp:
                for o, h in sorted(exp.items()):
                    if not o.startswith("/") and res["after"].get(o) is not None and res["after"].get(o) != h:
                        v.append(("O4-output-has-wrong-content", i, "exit 0 but %s does not hold what compiling its own input (and assembling / linking in command-line order) produces" % o))
        # O5 non-interference: the same invocation alone, under the same faults
        s = solo.get(i)
        if s is not None and not s["verdict"]:
            if s["status"][i] != status:
                v.append(("O5-interference-status", i, "exit status %d when run concurrently, %d when run alone with the same faults" % (status, s["status"][i])))
            else:
                for o in m["requested"]:
                    if not byte_exact and s["after"].get(o) is not None and res["after"].get(o) is not None:
                        continue
                    if not o.startswith("/") and s["after"].get(o) != res["after"].get(o):
                        v.append(("O5-interference-output", i, "%s differs between the concurrent and the lone execution" % o))
                if inv.get("stderr", "file") == "file" and s["stderr"][i] != res["stderr"][i]:
                    v.append(("O5-interference-diagnostics", i, "diagnostics differ:\nconcurrent: %s\nalone: %s" % (res["stderr"][i][-200:], s["stderr"][i][-200:])))
    # O3/O4 global: nothing new except requested outputs; unrelated files untouched; /tmp as before
    for f in sorted(set(res["after"]) | set(res["before"])):
        b, a = res["before"].get(f), res["after"].get(f)
        if a == b or f in requested_all:
            continue
        if b is None:
            v.append(("O3-stray-file", -1, "file %s was created in the working directory and is not a requested output" % f))
        elif a is None:
            v.append(("O4-unrelated-file-removed", -1, "file %s disappeared" % f))
        else:
            v.append(("O4-unrelated-file-changed", -1, "file %s was modified" % f))
    for f in sorted(set(res["tmp_after"]) - set(res["tmp_before"])):
        v.append(("O3-temporary-left", -1, "%s left behind" % f))
    return v


# ====================================================================================== one scenario, fully checked
def evaluate(env, wdir, scn, cache, trace=False, sched=None):
    which = list(range(len(scn["invocations"])))
    mach = Machine(env, wdir, scn, which, sched or scn["sched"], trace)
    res = mach.run()
    solo = {}
    if len(which) > 1 and not res["verdict"]:
        for i in which:
            solo[i] = Machine(env, wdir, scn, [i], {"kind": "serial"}).run()
    refs = {}
    for i in which:
        refs[i] = reference_run(env, wdir, scn, i, cache)
    viols = check(env, wdir, scn, res, solo, refs, which)
    return res, viols


def vclass(viols):
    return sorted(set(c for c, _, _ in viols))


def minimise(env, wdir, scn, res, cls, cache, budget=80):
    """greedy reduction: invocations, faults, inputs, then the schedule (serial first, then ddmin of the choice list)"""
    n = [0]
    best = json.loads(json.dumps(scn))
    best["sched"] = {"kind": "replay", "choices": list(res["choices"])}

    def still(c):
        if n[0] >= budget:
            return False
        n[0] += 1
        try:
            r, v = evaluate(env, wdir, c, cache)
        except Inconclusive:
            return False
        if cls in vclass(v):
            c["sched"] = {"kind": "replay", "choices": list(r["choices"])}
            return True
        return False
    progress = True
    while progress and n[0] < budget:
        progress = False
        for i in range(len(best["invocations"]) - 1, -1, -1):
            if len(best["invocations"]) <= 1:
                break
            c = json.loads(json.dumps(best))
            del c["invocations"][i]
            c["sched"] = {"kind": "replay", "choices": [x - (1 if x > i else 0) for x in best["sched"]["choices"] if x != i]}
            if still(c):
                best = c
                progress = True
        for i, inv in enumerate(best["invocations"]):
            for fi in range(len(inv["faults"]) - 1, -1, -1):
                c = json.loads(json.dumps(best))
                del c["invocations"][i]["faults"][fi]
                if still(c):
                    best = c
                    progress = True
            m = model(inv, best["files"])
            if len(m["inputs"]) > 1 and not m["refused"]:
                for p in list(m["inputs"]):
                    c = json.loads(json.dumps(best))
                    c["invocations"][i]["argv"] = [a for a in c["invocations"][i]["argv"] if a != p]
                    if still(c):
                        best = c
                        progress = True
                        break
    c = json.loads(json.dumps(best))
    c["pre"] = {}
    if best["pre"] and still(c):
        best = c
    if len(best["invocations"]) > 1:
        c = json.loads(json.dumps(best))
        c["sched"] = {"kind": "serial"}
        if still(c):
            best = c
        else:
            ch = list(best["sched"]["choices"])
            chunk = max(1, len(ch) // 2)
            while chunk >= 1 and n[0] < budget:
                i = 0
                while i + chunk <= len(ch) and n[0] < budget:
                    t = ch[:i] + ch[i + chunk:]
                    c = json.loads(json.dumps(best))
                    c["sched"] = {"kind": "replay", "choices": t}
                    if still(c):
                        best = c
                        ch = list(best["sched"]["choices"])
                    else:
                        i += chunk
                chunk //= 2
    # drop files nobody mentions
    mentioned = set(["common.h", "extra.h"])
    for inv in best["invocations"]:
        for a in inv["argv"]:
            mentioned.add(a)
    best["files"] = dict((k, v) for k, v in best["files"].items() if k in mentioned or any(k.startswith(a.lstrip("-o") + "/") for a in mentioned))
    return best, n[0]


def identity_of(scn, cls, viols):
    # class + command shape of the offending invocation + fault kinds, names canonicalised
    inv_i = next((i for c, i, _ in viols if c == cls and i >= 0), 0)
    inv = scn["invocations"][min(inv_i, len(scn["invocations"]) - 1)]
    m = model(inv, scn["files"])
    kinds = [scn["files"].get(p, "missing") for p in m["inputs"]]
    o = "none" if not m["out"] else "devfull" if m["out"] == "/dev/full" else "nodir" if m["out"].startswith("nodir") else "isdir" if m["out"].startswith("outdir") else "file"
    faults = ["%s:%s:%s" % (f["proc"].split("#")[0], f["ev"], f["act"]) for f in inv["faults"]]
    return "class=%s mode=%s inputs=%s o=%s stdout=%s faults=%s ninv=%d" % (cls, m["mode"], ",".join(kinds) or "-", o, inv["stdout"], ",".join(sorted(faults)) or "-",
                                                                        len(scn["invocations"]))


def describe(scn):
    out = ["tools=%s" % scn["tools"]]
    for n, k in sorted(scn["files"].items()):
        out.append("  file %s: %s" % (n, k))
    for n in sorted(scn["pre"]):
        out.append("  pre-existing %s" % n)
    for i, inv in enumerate(scn["invocations"]):
        out.append("  inv%d: chibicc %s%s" % (i, " ".join(inv["argv"]), (" > /dev/full" if inv["stdout"] == "devfull" else " >&-" if inv["stdout"] == "closed" else "") + (" <&-" if inv.get("stdin") == "closed" else "") + (" [SIGCHLD ignored]" if inv.get("sigchld") == "ignored" else "") + (" [argv0=chibicc via PATH]" if inv.get("argv0") == "bare" else "") + (" 2> /dev/full" if inv.get("stderr") == "devfull" else " 2>&1 | true" if inv.get("stderr") == "brokenpipe" else "")))
        for f in inv["faults"]:
            out.append("        fault: %s" % json.dumps(f, sort_keys=True))
    s = scn.get("sched", {})
    out.append("  schedule: %s" % (s if s.get("kind") != "replay" else "replay " + "".join(str(c) for c in s["choices"])))
    return "\n".join(out)


# ====================================================================================== enumeration of single points of failure
def enumeration_scenarios():
    """every command shape x every step of its pipeline x {exit 1, SIGSEGV at start, SIGKILL at 3rd event, calloc crash (cc1)}"""
    shapes = []
    for mode, flag in (("E", ["-E"]), ("S", ["-S"]), ("c", ["-c"]), ("link", [])):
        for inputs in (["a.c"], ["a.c", "b.c"], ["a.c", "b.s"], ["a.s"], ["a.c", "b.c", "c.o"], ["a.o"]):
            if mode == "E" and any(not p.endswith(".c") for p in inputs):
                continue
            if mode != "link" and any(p.endswith(".o") for p in inputs):
                continue
            for use_o in (False, True):
                if use_o and len(inputs) > 1 and mode != "link":
                    continue
                argv = flag + inputs + (["-o", "out.x"] if use_o else [])
                shapes.append((argv, inputs))
    out = []
    for argv, inputs in shapes:
        files = {"common.h": "header", "extra.h": "header2"}
        for p in inputs:
            files[p] = {"c": "valid", "s": "asm", "o": "obj"}[p[-1]]
        inv0 = {"argv": argv, "stdout": "file", "faults": []}
        m = model(inv0, files)
        variants = [[]]
        for step in m["steps"]:
            variants.append([{"proc": step, "ev": "start", "n": 1, "act": "exit", "status": 1}])
            variants.append([{"proc": step, "ev": "start", "n": 1, "act": "die", "sig": 11}])
            variants.append([{"proc": step, "ev": "*", "n": 3, "act": "die", "sig": 9}])
            variants.append([{"proc": step, "ev": "*", "n": 2, "act": "die", "sig": 15}])   # cancellation-type signals
            variants.append([{"proc": step, "ev": "start", "n": 1, "act": "die", "sig": 2}])
            variants.append([{"proc": step, "ev": "start", "n": 1, "act": "exit", "status": 255}])
            variants.append([{"proc": step, "ev": "fopen-w", "n": 1, "act": "wbudget", "bytes": 0, "errno": errno.ENOSPC}])
            variants.append([{"proc": step, "ev": "fopen-r", "n": 1, "act": "fail", "errno": errno.EACCES}])
            if step.startswith("cc1"):
                variants.append([{"proc": step, "ev": "start", "n": 1, "act": "callockill", "k": 700, "sig": 11}])
                variants.append([{"proc": step, "ev": "start", "n": 1, "act": "callockill", "k": 1900, "sig": 9}])
        for fl in variants:
            for pre in (False, True):
                scn = {"seed": 0, "tools": "stub", "files": dict(files), "pre": {}, "sched": {"kind": "serial"},
                       "invocations": [{"argv": list(argv), "stdout": "file", "faults": fl}]}
                if pre:
                    if not fl:
                        continue
                    for o in m["requested"]:
                        scn["pre"][o] = "OLD CONTENT of %s\n" % o
                out.append(scn)
    return out


# ====================================================================================== worker
def worker(args):
    (wid, sdir, cc, tools, master, start, step, total, seconds, mode, opts) = args
    t_end = time.monotonic() + seconds
    ptmp = private_tmp()
    wdir = os.path.join(sdir, "w%s" % wid)
    os.makedirs(wdir, exist_ok=True)
    env = {"cc": cc, "tools": tools, "libvsim": os.path.join(sdir, "libvsim.so"), "private_tmp": ptmp, "wid": "%02d" % int(wid), "sdir": sdir}
    out = {"runs": 0, "executions": 0, "events": 0, "viol": [], "inconclusive": 0, "hashes": set(), "nontrivial": 0, "fired": {}, "samples": [],
           "switches": 0, "interleaved_with_temps": 0, "private_tmp": ptmp, "by_tools": {}, "by_mode": {}, "ninv": {}, "classes": {}, "errors": [],
           "children": 0, "real_crashes": 0, "exhausted": False, "det_pairs": 0, "det_mismatch": 0}
    cache = {}
    if mode == "enum":
        scns = enumeration_scenarios()
        todo = [(k, scns[k]) for k in range(start, len(scns), step)]
        out["enum_total"] = len(scns)
    else:
        todo = None
    k = start
    idx = 0
    while True:
        if mode == "enum":
            if idx >= len(todo):
                out["exhausted"] = True
                break
            _, scn = todo[idx]
            idx += 1
            seed = idx
        else:
            if k >= total or time.monotonic() > t_end:
                out["exhausted"] = k >= total
                break
            seed = mix(master, k)
            scn = gen_scenario(seed, opts)
            k += step
        try:
            try:
                res, viols = evaluate(env, wdir, scn, cache)
            except Inconclusive:
                res, viols = evaluate(env, wdir, scn, cache)   # retried once
        except Inconclusive as e:
            out["inconclusive"] += 1
            continue
        except Exception as e:
            out["errors"].append("seed %s: %s" % (seed, traceback.format_exc()[-600:]))
            continue
        out["runs"] += 1
        out["executions"] += 1 + (len(scn["invocations"]) if len(scn["invocations"]) > 1 else 0)
        if mode != "enum" and out["det_pairs"] < opts.get("det_per_worker", 8):
            # determinism of the simulation itself: the same scenario again, event log and outcome must be identical
            try:
                again = Machine(env, wdir, scn, list(range(len(scn["invocations"]))), scn["sched"]).run()
                out["det_pairs"] += 1
                if again["loghash"] != res["loghash"] or again["status"] != res["status"] or again["after"] != res["after"]:
                    out["det_mismatch"] += 1
                    a, b = res["log"], again["log"]
                    k = next((i for i in range(min(len(a), len(b))) if a[i] != b[i]), min(len(a), len(b)))
                    out["errors"].append("seed %s did not repeat: first difference at event %d: %r vs %r" % (seed, k, a[k:k + 1], b[k:k + 1]))
            except Inconclusive:
                pass
        out["events"] += res["events"]
        out["switches"] += res["context_switches"]
        out["interleaved_with_temps"] += res["interleaved_with_temps"]
        out["by_tools"][scn["tools"]] = out["by_tools"].get(scn["tools"], 0) + 1
        out["ninv"][len(scn["invocations"])] = out["ninv"].get(len(scn["invocations"]), 0) + 1
        for i, st in res["inv"].items():
            out["children"] += len(st["children"])
            out["real_crashes"] += sum(1 for _, how in st["ended"] if how == "crashed")
            md = model(scn["invocations"][i], scn["files"])["mode"]
            out["by_mode"][md] = out["by_mode"].get(md, 0) + 1
        for _, _, what in res["fault_fired"]:
            key = what.split(" ")[0] + (" " + what.split(" ")[-1] if what.startswith(("fail", "exit", "die")) else "")
            out["fired"][key] = out["fired"].get(key, 0) + 1
        nontrivial = bool(res["fault_fired"]) or res["interleaved_with_temps"] > 0
        if nontrivial:
            out["nontrivial"] += 1
            out["hashes"].add(res["loghash"])
        if len(out["samples"]) < 2 and mode != "enum":
            out["samples"].append({"seed": seed, "scenario": describe(scn).splitlines(), "events": res["events"], "first_events": res["log"][:12]})
        if viols:
            for cls in vclass(viols):
                out["classes"][cls] = out["classes"].get(cls, 0) + 1
            cls = vclass(viols)[0]
            if sum(1 for v in out["viol"] if v["cls"] == cls) >= 2:
                continue
            try:
                # gate 1: the same scenario again: same classes and the same event log
                res2, viols2 = evaluate(env, wdir, scn, cache)
                if vclass(viols2) != vclass(viols) or res2["loghash"] != res["loghash"]:
                    out["viol"].append({"cls": "NONDETERMINISTIC", "seed": seed, "text": "classes %s/%s loghash %s/%s\n%s" % (
                        vclass(viols), vclass(viols2), res["loghash"], res2["loghash"], describe(scn))})
                    continue
                ms, nx = minimise(env, wdir, scn, res, cls, cache)
                rm, vm = evaluate(env, wdir, ms, cache)
                if cls not in vclass(vm):
                    ms, rm, vm, nx = scn, res, viols, 0
                    ms = json.loads(json.dumps(scn))
                    ms["sched"] = {"kind": "replay", "choices": list(res["choices"])}
                out["viol"].append({"cls": cls, "seed": seed, "scenario": ms, "identity": identity_of(ms, cls, vm), "loghash": rm["loghash"],
                                    "text": "\n".join("%s (inv %d): %s" % v for v in vm if v[0] == cls), "min_execs": nx,
                                    "log": rm["log"], "desc": describe(ms)})
            except Inconclusive:
                out["inconclusive"] += 1
    shutil.rmtree(wdir, ignore_errors=True)
    out["hashes"] = sorted(out["hashes"])
    return out


def replay(env_main, scn, trace=True):
    sdir = env_main["sdir"]
    wdir = os.path.join(sdir, "wreplay")
    os.makedirs(wdir, exist_ok=True)
    env = dict(env_main)
    env["private_tmp"] = private_tmp()
    env["wid"] = "99"
    res, viols = evaluate(env, wdir, scn, {}, trace=trace)
    return res, viols


def replay_in_fresh_process(path):
    p = subprocess.run([sys.executable, os.path.abspath(__file__), "--replay", path, "--quiet"], stdout=subprocess.PIPE, stderr=subprocess.STDOUT)
    out = p.stdout.decode(errors="replace")
    cls, lh = [], ""
    for l in out.splitlines():
        if l.startswith("REPLAY classes="):
            cls = [c for c in l.split("classes=")[1].split(" ")[0].split(",") if c]
            lh = l.split("loghash=")[1].strip()
    return cls, lh, out


def main(argv):
    tier = tier_from_args(argv)
    t0 = now()
    master = master_seed()
    os.environ.setdefault("VERIF_TMP", "/dev/shm" if os.path.isdir("/dev/shm") else "/var/tmp")
    sdir = scratch("verif-c14")
    try:
        cc, tools = build_tools(sdir)
    except BuildError as e:
        print("HARNESS-ERROR property=%s cannot build: %s" % (PROP, e))
        return 2
    env_main = {"cc": cc, "tools": tools, "libvsim": os.path.join(sdir, "libvsim.so"), "sdir": sdir}
    if "--replay" in argv:
        path = argv[argv.index("--replay") + 1]
        plan = json.load(open(path))
        # the replay itself runs in a child so that the private /tmp does not hide the scratch directory from the cleanup
        pid = os.fork()
        if pid == 0:
            rc = 0
            try:
                res, viols = replay(env_main, plan["scenario"], trace="--quiet" not in argv)
                print("REPLAY classes=%s loghash=%s" % (",".join(vclass(viols)), res["loghash"]))
                for v in viols:
                    print("  %s (inv %d): %s" % v)
                if viols:
                    print("VIOLATION property=%s replay=%s" % (PROP, path))
                    rc = 1
            except Exception:
                traceback.print_exc()
                rc = 2
            sys.stdout.flush()
            os._exit(rc)
        _, st = os.waitpid(pid, 0)
        return os.WEXITSTATUS(st)

    if "--one" in argv:
        seed = int(argv[argv.index("--one") + 1])
        scn = gen_scenario(seed, {})
        print(describe(scn))
        pid = os.fork()
        if pid == 0:
            res, viols = replay(env_main, scn, trace=True)
            print("status", res["status"], "loghash", res["loghash"])
            for i in res["stderr"]:
                print("stderr inv%d: %s" % (i, res["stderr"][i][-400:]))
            for v in viols:
                print("  VIOL %s (inv %d): %s" % v)
            sys.stdout.flush()
            os._exit(0)
        os.waitpid(pid, 0)
        return 0
    rep = Reporter(PROP)
    rep.clean_replays()
    import multiprocessing as mp
    nw = NCPU
    if tier == "quick":
        seconds, total = 55, 10 ** 9
    else:
        seconds, total = 1200, 10 ** 9
    opts = {"det_per_worker": 8 if tier == "quick" else 70}
    agg = {"runs": 0, "executions": 0, "events": 0, "inconclusive": 0, "nontrivial": 0, "switches": 0, "interleaved_with_temps": 0, "children": 0, "real_crashes": 0,
           "det_pairs": 0, "det_mismatch": 0}
    fired, by_tools, by_mode, ninv, classes = {}, {}, {}, {}, {}
    hashes = set()
    samples = []
    enum_info = {}
    with mp.get_context("fork").Pool(nw) as pool:
        for mode in ("enum", "random"):
            results = pool.map(worker, [(w, sdir, cc, tools, master, w, nw, total, seconds, mode, opts) for w in range(nw)])
            for r in results:
                for k in agg:
                    agg[k] += r[k]
                for d, s in ((fired, r["fired"]), (by_tools, r["by_tools"]), (by_mode, r["by_mode"]), (ninv, r["ninv"]), (classes, r["classes"])):
                    for k, v in s.items():
                        d[str(k)] = d.get(str(k), 0) + v
                hashes |= set(r["hashes"])
                samples += r["samples"]
                for e in r["errors"][:3]:
                    rep.harness_error("worker: " + e)
                if mode == "enum":
                    enum_info["scenarios"] = r.get("enum_total", 0)
                    enum_info["complete"] = enum_info.get("complete", True) and r["exhausted"]
                    enum_info["runs"] = enum_info.get("runs", 0) + r["runs"]
                if not r["private_tmp"]:
                    enum_info["private_tmp"] = False
                for v in r["viol"]:
                    if v["cls"] == "NONDETERMINISTIC":
                        rep.harness_error("seed %s did not repeat: %s" % (v["seed"], v["text"][:500]))
                        continue
                    plan = {"engine": "procsim", "property": PROP, "class": v["cls"], "seed": v["seed"], "identity": v["identity"], "loghash": v["loghash"],
                            "scenario": v["scenario"], "event_log": v["log"], "minimisation_executions": v["min_execs"]}
                    rp = save_replay(PROP, v["seed"], plan)
                    # gate 2: fresh process, same class, same event log
                    cls2, lh2, out2 = replay_in_fresh_process(rp)
                    if v["cls"] not in cls2 or lh2 != v["loghash"]:
                        rep.harness_error("seed %s: minimised scenario does not replay in a fresh process (%s/%s vs %s/%s)" % (v["seed"], cls2, lh2, v["cls"], v["loghash"]))
                        try:
                            os.unlink(rp)
                        except OSError:
                            pass
                        continue
                    rep.violation(v["identity"], rp, "%s\n%s\n(minimised in %d executions; %d events)" % (v["desc"], v["text"], v["min_execs"], len(v["log"])))
    wall = now() - t0
    if agg["inconclusive"] > max(20, agg["runs"] // 2):
        rep.harness_error("%d runs were inconclusive against %d conclusive ones: the simulator cannot drive this tree" % (agg["inconclusive"], agg["runs"]))
    coverage = {
        "evaluations": agg["runs"],
        "distinct_nontrivial": len(hashes),
        "rule": "one evaluation = one scenario: 1..3 concurrent driver invocations (-E/-S/-c/link, with/without -o, 1..3 inputs: valid C, C failing in the "
                "tokenizer / preprocessor / parser / code generator, C that makes cc1 overflow its stack, .s, .o, missing files, a directory) in one working "
                "directory with one /tmp, every process parked at each fork/exec/wait/mkstemp/unlink/fopen/exit and released one at a time by the seed, with "
                "0..2 fault ops per invocation; it is executed interleaved, then each invocation alone with the same faults, then alone without simulator "
                "(reference), and checked against the driver-contract model (O1..O5 of DESIGN.md section 3.4). Non-trivial = at least one injected fault actually fired, or a "
                "context switch between two invocations happened while both had temporaries alive. Distinct = distinct hash of the canonical event log.",
        "samples": samples[:3],
        "runs_per_hour": int(agg["runs"] / wall * 3600) if wall > 0 else 0,
        "process_executions": agg["executions"],
        "child_processes_run": agg["children"],
        "events": agg["events"],
        "simulated_time": "not applicable: the driver has no timers or deadlines; progress is counted in granted libc-call events",
        "fault_kinds_fired": fired,
        "real_cc1_crashes(stack overflow)": agg["real_crashes"],
        "context_switches_between_invocations": agg["switches"],
        "switches_while_both_had_temporaries": agg["interleaved_with_temps"],
        "inconclusive_runs": agg["inconclusive"],
        "determinism": {"scenarios_executed_twice": agg["det_pairs"], "mismatches": agg["det_mismatch"]},
        "by_tools": by_tools, "by_mode": by_mode, "invocations_per_scenario": ninv, "violation_classes_seen": classes,
        "single_failure_enumeration": {"scenarios": enum_info.get("scenarios", 0), "executed": enum_info.get("runs", 0), "exhaustive": bool(enum_info.get("complete")),
                                       "space": "42 command shapes x every pipeline step x {exit 1 at start, exit 255 at start, SIGSEGV at start, SIGINT at start, SIGTERM at 2nd event, SIGKILL at 3rd event, "
                                                "write error on first output, open error on first input, 2 allocation-count crashes for cc1} x {output absent, output pre-existing}, one invocation, fixed schedule"},
        "private_tmp_namespace": enum_info.get("private_tmp", True),
        "components": {"real": ["driver, cc1 (chibicc built from the working tree)", "kernel process and file semantics, glibc stdio", "GNU as in %d runs, GNU ld in %d runs" % (by_tools.get("realas", 0) + by_tools.get("real", 0), by_tools.get("real", 0))],
                       "stub": ["as and ld in %d runs (tiny C programs under the same shim, with careful error handling)" % by_tools.get("stub", 0)],
                       "simulated": ["scheduling of every process at libc-call granularity", "I/O errors through fopencookie streams", "process death by signal / exit status at chosen events and allocation counts", "temp-file names"]},
        "exhaustive": False,
    }
    rc = rep.finish()
    write_evidence(PROP, tier, master, "exploration", coverage,
                   ["the driver itself is never killed (the statement is about failing steps; nothing can clean up after SIGKILL of the driver)",
                    "a partial output file is tolerated when the writer was killed or hit ENOSPC after opening it (the statement does not demand write-to-temp-and-rename)",
                    "power loss / fsync durability is out of scope",
                    "write errors are injected at stdio level (fopencookie); a driver that bypasses stdio would only meet the natural faults (/dev/full, missing directory, directory as output)",
                    "sampled, not exhaustive, except the single-failure sub-space listed under single_failure_enumeration"],
                   wall, len(rep.new))
    print("C14 %s: %d scenarios (%d enumerated single-failure cases), %d process-level executions, %d events, %d distinct non-trivial, %d violation(s), %d inconclusive, %.1fs" % (
        tier, agg["runs"], enum_info.get("runs", 0), agg["executions"], agg["events"], len(hashes), len(rep.new), agg["inconclusive"], wall))
    return rc


if __name__ == "__main__":
    sys.exit(main(sys.argv[1:]))
