# Common machinery for all engines (python3 stdlib only).
#
# * one-integer seeding (splitmix64) -- never hash(), never set iteration order
# * scratch build of /repo's working tree outside /repo and /verif, removed on exit
# * known-findings file, VIOLATION / KNOWN-FINDING reporting, evidence writer
import atexit, json, os, shutil, signal, subprocess, sys, tempfile, time, hashlib

VERIF = os.path.dirname(os.path.dirname(os.path.dirname(os.path.abspath(__file__))))
REPO = os.environ.get("VERIF_REPO", "/repo")
BUILD = os.path.join(VERIF, "engine", "build")
EVID = os.path.join(VERIF, "evidence")
REPLAYS = os.path.join(VERIF, "replays")
KNOWN = os.path.join(VERIF, "known_findings.txt")
NCPU = int(os.environ.get("VERIF_JOBS", "0")) or (os.cpu_count() or 4)

M64 = (1 << 64) - 1


def splitmix64(x):
    x = (x + 0x9E3779B97F4A7C15) & M64
    z = x
    z = ((z ^ (z >> 30)) * 0xBF58476D1CE4E5B9) & M64
    z = ((z ^ (z >> 27)) * 0x94D049BB133111EB) & M64
    return z ^ (z >> 31)


def mix(master, i):
    """seed of run i of a batch whose master seed is `master`"""
    return splitmix64(splitmix64(master & M64) ^ ((i * 0xD6E8FEB86659FD93) & M64))


class Rng:
    """Small deterministic PRNG (splitmix64 stream); identical in every python."""

    def __init__(self, seed):
        self.s = seed & M64

    def u64(self):
        self.s = (self.s + 0x9E3779B97F4A7C15) & M64
        z = self.s
        z = ((z ^ (z >> 30)) * 0xBF58476D1CE4E5B9) & M64
        z = ((z ^ (z >> 27)) * 0x94D049BB133111EB) & M64
        return z ^ (z >> 31)

    def below(self, n):
        return self.u64() % n if n > 0 else 0

    def range(self, lo, hi):  # inclusive
        return lo + self.below(hi - lo + 1)

    def chance(self, num, den):
        return self.below(den) < num

    def pick(self, seq):
        return seq[self.below(len(seq))]

    def shuffle(self, lst):
        for i in range(len(lst) - 1, 0, -1):
            j = self.below(i + 1)
            lst[i], lst[j] = lst[j], lst[i]

    def sample(self, seq, k):
        l = list(seq)
        self.shuffle(l)
        return l[:k]


def master_seed():
    try:
        return int(os.environ.get("VERIF_SEED", "1"))
    except ValueError:
        return 1


# ---------------------------------------------------------------- scratch / build
_scratch_dirs = []


def _cleanup():
    # only the process that created a scratch directory removes it: forked pool workers inherit this
    # handler and are terminated with SIGTERM while the parent still needs the directory
    for d, pid in _scratch_dirs:
        if pid == os.getpid():
            shutil.rmtree(d, ignore_errors=True)


def _on_signal(signum, frame):
    _cleanup()
    os._exit(128 + signum)


def _child_after_fork():
    # forked helpers (multiprocessing pool workers) must die at once when the pool terminates them: a python-level
    # handler cannot run while the worker is blocked inside a C-level lock, and Pool.terminate() then waits for ever
    for s in (signal.SIGTERM, signal.SIGINT, signal.SIGHUP):
        try:
            signal.signal(s, signal.SIG_DFL)
        except Exception:
            pass


os.register_at_fork(after_in_child=_child_after_fork)
atexit.register(_cleanup)
for _s in (signal.SIGTERM, signal.SIGINT, signal.SIGHUP):
    try:
        signal.signal(_s, _on_signal)
    except Exception:
        pass


def scratch(prefix="verif"):
    base = os.environ.get("VERIF_TMP", "/tmp")
    d = tempfile.mkdtemp(prefix="%s.%d." % (prefix, os.getpid()), dir=base)
    _scratch_dirs.append((d, os.getpid()))
    return d


class BuildError(Exception):
    pass


def copy_repo(dst):
    """copy /repo's *working tree* (sources only) to dst"""
    os.makedirs(dst, exist_ok=True)
    r = subprocess.run(
        ["rsync", "-a", "--delete",
         "--exclude=.git", "--exclude=*.o", "--exclude=/chibicc", "--exclude=/stage2",
         "--exclude=/test/*.exe", "--exclude=/test/*.s", "--exclude=/tmp*", "--exclude=a.out",
         REPO + "/", dst + "/"],
        stdout=subprocess.PIPE, stderr=subprocess.STDOUT)
    if r.returncode != 0:
        raise BuildError("rsync failed: " + r.stdout.decode(errors="replace"))


def build_chibicc(dst, extra_cflags=""):
    """builds chibicc from a copy of /repo's working tree with the repo's own Makefile"""
    copy_repo(dst)
    cmd = ["make", "-C", dst, "-j%d" % NCPU, "chibicc"]
    if extra_cflags:
        cmd.append("CFLAGS=-std=c11 -g -fno-common -Wall -Wno-switch " + extra_cflags)
    r = subprocess.run(cmd, stdout=subprocess.PIPE, stderr=subprocess.STDOUT)
    if r.returncode != 0 or not os.path.exists(os.path.join(dst, "chibicc")):
        raise BuildError("chibicc does not build from the working tree:\n" + r.stdout.decode(errors="replace")[-3000:])
    return os.path.join(dst, "chibicc")


def repo_rev():
    try:
        h = subprocess.run(["git", "-C", REPO, "rev-parse", "--short", "HEAD"], stdout=subprocess.PIPE,
                           stderr=subprocess.DEVNULL).stdout.decode().strip()
        d = subprocess.run(["git", "-C", REPO, "status", "--porcelain", "--untracked-files=no"],
                           stdout=subprocess.PIPE, stderr=subprocess.DEVNULL).stdout.decode().strip()
        return h + ("+dirty" if d else "")
    except Exception:
        return "unknown"


# ---------------------------------------------------------------- known findings
class Known:
    """known_findings.txt:  `known: property=<id> <identity words...>`  suppress matching violations
                            `fixed: property=<id> <commit> <text>`       suppress nothing
    A violation is matched by its *identity string* (engine-defined, stable under reshuffling
    of seeds): the known line's identity must be equal to it."""

    def __init__(self, prop):
        self.prop = prop
        self.known = []
        self.fixed = []
        if os.path.exists(KNOWN):
            for line in open(KNOWN):
                line = line.strip()
                if not line or line.startswith("#"):
                    continue
                kind, _, rest = line.partition(":")
                rest = rest.strip()
                if not rest.startswith("property=" + prop + " "):
                    continue
                body = rest[len("property=" + prop) + 1:].strip()
                if kind == "known":
                    ident, _, text = body.partition(" -- ")
                    self.known.append((ident.strip(), text.strip()))
                elif kind == "fixed":
                    self.fixed.append(body)

    def match(self, identity):
        for ident, text in self.known:
            if ident == identity:
                return (ident, text)
        return None


# ---------------------------------------------------------------- reporting
def sha(s):
    if isinstance(s, str):
        s = s.encode()
    return hashlib.sha256(s).hexdigest()[:16]


def save_replay(prop, seed, plan):
    os.makedirs(REPLAYS, exist_ok=True)
    body = json.dumps(plan, indent=1, sort_keys=True)
    path = os.path.join(REPLAYS, "%s-%d-%s.json" % (prop, seed & M64, sha(body)[:8]))
    with open(path, "w") as f:
        f.write(body + "\n")
    return path


def write_evidence(prop, tier, seed, level, coverage, assumptions, wall_s, violations, extra=None):
    os.makedirs(EVID, exist_ok=True)
    ev = {
        "property_id": prop, "tier": tier, "seed": int(seed), "level": level,
        "coverage": coverage, "assumptions": assumptions, "wall_s": round(wall_s, 2),
        "violations": int(violations), "repo_rev": repo_rev(),
    }
    if extra:
        ev.update(extra)
    tmp = os.path.join(EVID, ".%s.json.tmp" % prop)
    with open(tmp, "w") as f:
        json.dump(ev, f, indent=1)
        f.write("\n")
    os.replace(tmp, os.path.join(EVID, prop + ".json"))


class Reporter:
    """collects violations; prints KNOWN-FINDING / VIOLATION lines; decides the exit code"""

    def __init__(self, prop):
        self.prop = prop
        self.known = Known(prop)
        self.new = []       # (identity, replay_path, text)
        self.seen_known = {}
        self.harness_errors = []
        self.per_class = {}
        self.suppressed = 0

    MAXPER = 4

    def clean_replays(self):
        """replay files of earlier runs of this property are stale once a new run starts"""
        try:
            for f in os.listdir(REPLAYS):
                if f.startswith(self.prop + "-") and f.endswith(".json"):
                    os.unlink(os.path.join(REPLAYS, f))
        except OSError:
            pass

    def violation(self, identity, replay_path, text):
        k = self.known.match(identity)
        if k:
            if identity not in self.seen_known:
                self.seen_known[identity] = (k[1] or text, replay_path)
            return False
        for i, rp0, _ in self.new:
            if i == identity:
                if rp0 != replay_path:
                    try:
                        os.unlink(replay_path)
                    except OSError:
                        pass
                return True
        # at most MAXPER reports (and replay files) per violation class; the rest are counted
        cls = " ".join(identity.split()[:2])
        self.per_class[cls] = self.per_class.get(cls, 0) + 1
        if self.per_class[cls] > self.MAXPER:
            self.suppressed += 1
            try:
                os.unlink(replay_path)
            except OSError:
                pass
            return True
        self.new.append((identity, replay_path, text))
        return True

    def want(self, cls):
        """engines may ask before spending time on minimising yet another instance of a class"""
        return self.per_class.get(cls, 0) < self.MAXPER

    def harness_error(self, text):
        self.harness_errors.append(text)

    def finish(self):
        for ident, (text, rp) in sorted(self.seen_known.items()):
            print("KNOWN-FINDING: property=%s %s -- %s" % (self.prop, ident, text))
        for ident, rp, text in self.new:
            print("VIOLATION property=%s replay=%s" % (self.prop, rp))
            print("  identity: %s" % ident)
            for l in text.splitlines()[:40]:
                print("  " + l)
        if self.suppressed:
            print("(%d further violations of the same classes not listed)" % self.suppressed)
        for t in self.harness_errors[:20]:
            print("HARNESS-ERROR property=%s %s" % (self.prop, t))
        sys.stdout.flush()
        if self.new:
            return 1
        if self.harness_errors:
            return 2
        return 0


def tier_from_args(argv):
    tier = os.environ.get("VERIF_TIER", "quick")
    if "--tier" in argv:
        tier = argv[argv.index("--tier") + 1]
    return "thorough" if tier == "thorough" else "quick"


def now():
    return time.monotonic()
