#ifndef ISCHED_H
#define ISCHED_H
typedef long (*opfn)(void *obj, long a, long *b);
struct opinfo {
  const char *name;   // e.g. "i_add_member"
  const char *type;   // C type of the atomic object
  const char *opname; // "add", "cas_s", ...
  int objsize;        // bytes of object state
  int storage;        // 0 ptr, 1 member via pointer, 2 global, 3 global struct member, 4 global array element, 5 algorithm, 6 nested member, 7 automatic (owner function), 8 thread-local, 9 member of a thread-local struct
  int cls;            // 0 compound 1 incdec 2 fetch 3 xchg 4 cas 5 load 6 store 7 flag 8 algo
  int usesb;          // *b is an in/out "expected" value
  opfn fn[2];         // emitted by the chibicc under test: default build, -fPIC build
  opfn ref;           // sequential specification: same source line compiled by gcc
  void *(*addr[2])(void); // fixed objects: where they live (per build)
  int group;          // operations of one group can share one object
  long (*owner[2])(void *ctx); // storage 7 (automatic): the function that owns the object and performs this op by name
  int owncode;        // which of the owner's operations
};
extern const struct opinfo optable[];
extern const int noptable, ngroups;
#endif
