#!/usr/bin/env python3
# Rewrites assembly *emitted by chibicc* so that a simulator decides which thread executes the
# next memory-touching instruction.
#
# * before every instruction with a memory operand that is not %rsp/%rbp based (those are the
#   thread's own frame), and before every lock-prefixed instruction or xchg-with-memory:
#         lea -128(%rsp),%rsp ; push $SITE ; call __sim_yield ; lea 136(%rsp),%rsp
#   (lea and push leave the flags alone; -128 steps over the red zone chibicc does use)
# * CPU model: a read-modify-write with a memory destination and *no* lock prefix is not one step
#   on a multiprocessor. It is replaced by its micro-sequence  load ; yield ; compute/compare ; store
#   so that a serialising scheduler does not make it look atomic. xchg with memory is implicitly
#   locked and stays one step; forms outside the table stay one step (can only hide, never invent).
#
# usage: rewrite.py in.s out.s sites.c <site-id-base> <tag>
import re, sys

R64 = ["rax", "rbx", "rcx", "rdx", "rsi", "rdi", "rbp", "rsp", "r8", "r9", "r10", "r11", "r12", "r13", "r14", "r15"]
FAM = {}
for r in ["a", "b", "c", "d"]:
    FAM.update({"r%sx" % r: "r%sx" % r, "e%sx" % r: "r%sx" % r, "%sx" % r: "r%sx" % r, "%sl" % r: "r%sx" % r, "%sh" % r: "r%sx" % r})
for r in ["si", "di", "bp", "sp"]:
    FAM.update({"r" + r: "r" + r, "e" + r: "r" + r, r: "r" + r, r + "l": "r" + r})
for i in range(8, 16):
    FAM.update({"r%d" % i: "r%d" % i, "r%dd" % i: "r%d" % i, "r%dw" % i: "r%d" % i, "r%db" % i: "r%d" % i})


def sub(reg64, size):
    """name of the size-byte sub-register of a 64-bit register"""
    if reg64 in ("rax", "rbx", "rcx", "rdx"):
        c = reg64[1]
        return {8: "r%sx" % c, 4: "e%sx" % c, 2: "%sx" % c, 1: "%sl" % c}[size]
    if reg64 in ("rsi", "rdi", "rbp", "rsp"):
        c = reg64[1:]
        return {8: "r" + c, 4: "e" + c, 2: c, 1: c + "l"}[size]
    return {8: reg64, 4: reg64 + "d", 2: reg64 + "w", 1: reg64 + "b"}[size]


def regsize(name):
    if name in FAM:
        if name.startswith("r") and not name[-1] in "dwb" or name in R64:
            return 8
        if name.startswith("e") or name.endswith("d"):
            return 4
        if name.endswith("l") or name.endswith("b") or name.endswith("h"):
            return 1
        return 2
    return None


MEM_RE = re.compile(r"[^\s,()]*\((%\w+)?(?:\s*,\s*(%\w+)(?:\s*,\s*\d)?)?\)")
RMW_ALU = {"add", "sub", "and", "or", "xor", "adc", "sbb"}
RMW_UN = {"inc", "dec", "neg", "not"}
SUFFIX = {"b": 1, "w": 2, "l": 4, "q": 8}


def split_ops(s):
    out, depth, cur = [], 0, ""
    for ch in s:
        if ch == "(":
            depth += 1
        if ch == ")":
            depth -= 1
        if ch == "," and depth == 0:
            out.append(cur.strip())
            cur = ""
        else:
            cur += ch
    if cur.strip():
        out.append(cur.strip())
    return out


class Rewriter:
    def __init__(self, base, tag):
        self.sites = []  # (kind, func, text)
        self.base = base
        self.tag = tag
        self.func = "?"
        self.uid = 0
        self.stats = {"yield_sites": 0, "locked": 0, "xchg": 0, "modelled_nonlocked_rmw": 0, "unmodelled_nonlocked_rmw": 0}

    def site(self, kind, text):
        self.sites.append((kind, self.func, text))
        self.stats["yield_sites"] += 1
        return self.base + len(self.sites) - 1

    def yld(self, kind, text):
        i = self.site(kind, text)
        return ["  lea -128(%rsp), %rsp", "  push $%d" % i, "  call __sim_yield", "  lea 136(%rsp), %rsp"]

    def access(self, kind, text, mem, size):
        """a scheduling point that also tells the simulator WHICH bytes the instruction is about to load ('l') or store ('s'):
        the store-buffer model (TSO) needs the address; with the model off it is an ordinary scheduling point"""
        i = self.site(kind, text)
        assert i < (1 << 24) and 0 < size <= 16
        imm = i | size << 24 | (1 << 30 if kind == "s" else 0)
        self.stats["addressed_" + ("stores" if kind == "s" else "loads")] = self.stats.get("addressed_" + ("stores" if kind == "s" else "loads"), 0) + 1
        return ["  lea -128(%rsp), %rsp", "  push %rax", "  lea %s, %%rax" % mem, "  push %rax", "  mov 8(%rsp), %rax",
                "  push $%d" % imm, "  call __sim_access", "  lea 152(%rsp), %rsp"]

    def store_post(self):
        return ["  lea -128(%rsp), %rsp", "  call __sim_store_post", "  lea 128(%rsp), %rsp"]

    def one(self, ins):
        """ins: one instruction (no leading blanks, no ';'); returns list of lines"""
        raw = ins
        parts = ins.split(None, 1)
        if not parts:
            return []
        mn = parts[0]
        rest = parts[1] if len(parts) > 1 else ""
        locked = False
        if mn == "lock":
            locked = True
            p2 = rest.split(None, 1)
            mn = p2[0]
            rest = p2[1] if len(p2) > 1 else ""
        if mn.startswith("rep"):
            return ["  " + raw]
        if mn == "mfence":
            return self.yld("A", raw) + ["  " + raw]    # a full barrier: the store buffer drains here
        ops = split_ops(rest)
        memidx = None
        for i, o in enumerate(ops):
            m = MEM_RE.fullmatch(o)
            if m and "%" in o and not o.startswith("*"):
                memidx = i
                mm = m
        if mn.startswith("lea") or mn in ("nop", "call", "jmp", "ret", "leave") or mn.startswith("j"):
            return ["  " + raw]
        if memidx is None:
            return ["  " + raw]
        base = (mm.group(1) or "").lstrip("%")
        idx = (mm.group(2) or "").lstrip("%")
        shared_frame = "own_" in self.func  # owner functions publish the address of a local: their frame is not private
        if base in ("rsp", "esp") or idx in ("rsp",) or (base in ("rbp", "ebp") and not shared_frame and not locked):
            return ["  " + raw]  # the thread's own frame
        mem = ops[memidx]
        is_dest = memidx == len(ops) - 1 and not (mn.startswith("cmp") and not mn.startswith("cmpxchg")) \
            and not mn.startswith("test") and not mn.startswith("ucomi") and not mn.startswith("comi")
        stem = mn
        size = None
        # operand size: from a register operand, else from the suffix
        for o in ops:
            if o.startswith("%") and o[1:] in FAM:
                size = regsize(o[1:])
        if mn[-1] in SUFFIX and mn[:-1] in (RMW_ALU | RMW_UN | {"cmpxchg", "xadd", "xchg", "shl", "shr", "sar"}):
            stem = mn[:-1]
            size = size or SUFFIX[mn[-1]]
        if locked:
            self.stats["locked"] += 1
            return self.yld("A", raw) + ["  " + raw]
        if stem == "xchg":
            self.stats["xchg"] += 1
            return self.yld("A", raw) + ["  " + raw]  # implicitly locked
        rmw = is_dest and (stem in RMW_ALU or stem in RMW_UN or stem in ("cmpxchg", "xadd"))
        if not rmw:
            if is_dest and stem in ("shl", "shr", "sar", "sal", "rol", "ror", "bts", "btr", "btc"):
                self.stats["unmodelled_nonlocked_rmw"] += 1
            # plain stores and plain loads: the simulator is told the address (store-buffer model)
            asz = None
            if "%rsp" not in mem and "%esp" not in mem:
                if is_dest:
                    if mn in ("mov", "movb", "movw", "movl", "movq"):
                        asz = size if mn == "mov" or size else None
                        if mn != "mov" and not asz:
                            asz = SUFFIX[mn[-1]]
                        if mn == "movq" and any(o.startswith("%xmm") for o in ops):
                            asz = 8
                    asz = {"movss": 4, "movsd": 8, "movd": 4, "movups": 16, "movaps": 16, "movdqu": 16, "fstps": 4, "fstpl": 8, "fstpt": 10, "fsts": 4, "fstl": 8}.get(mn, asz)
                else:
                    m2 = re.fullmatch(r"mov[sz]([bw])[wlq]", mn)
                    if m2:
                        asz = SUFFIX[m2.group(1)]
                    elif mn in ("movslq", "movsxd"):
                        asz = 4
                    elif mn in ("mov", "movb", "movw", "movl", "movq", "cmp", "cmpb", "cmpw", "cmpl", "cmpq", "test", "testb", "testw", "testl", "testq",
                                "add", "sub", "and", "or", "xor", "imul", "addl", "addq", "subl", "subq"):
                        asz = size or SUFFIX.get(mn[-1])
                        if mn == "movq" and any(o.startswith("%xmm") for o in ops):
                            asz = 8
                    asz = {"movss": 4, "movsd": 8, "movd": 4, "movups": 16, "movaps": 16, "movdqu": 16, "flds": 4, "fldl": 8, "fldt": 10,
                           "cvtss2sd": 4, "cvtsd2ss": 8, "ucomiss": 4, "ucomisd": 8, "comiss": 4, "comisd": 8}.get(mn, asz)
                    if asz is None:
                        asz = 16    # unknown width: the overlap test errs on the side of draining
            if asz:
                if is_dest:
                    return self.access("s", raw, mem, asz) + ["  " + raw] + self.store_post()
                return self.access("l", raw, mem, asz) + ["  " + raw] + self.store_post()    # (the post hook undoes store-to-load forwarding)
            return self.yld("S" if is_dest else "L", raw) + ["  " + raw]
        if size is None:
            self.stats["unmodelled_nonlocked_rmw"] += 1
            return self.yld("S", raw) + ["  " + raw]
        # ---- CPU model for a non-locked read-modify-write
        usedfam = set()
        for r in re.findall(r"%(\w+)", raw):
            if r in FAM:
                usedfam.add(FAM[r])
        usedfam |= {"rax", "rsp", "rbp"}
        free = [r for r in ["rcx", "rsi", "r9", "r10", "r11", "rdx", "r8", "rdi", "rbx"] if r not in usedfam]
        T, U = free[0], free[1]
        t, u = "%" + sub(T, size), "%" + sub(U, size)
        sfx = {1: "b", 2: "w", 4: "l", 8: "q"}[size]
        self.uid += 1
        L = ".Lsim_%s_%d" % (self.tag, self.uid)
        self.stats["modelled_nonlocked_rmw"] += 1
        out = ["  # modelled non-locked RMW: " + raw]
        out += self.yld("L", raw + "   [micro-op 1: load]")
        out += ["  lea -128(%rsp), %rsp"]  # scratch pushes must not land in the red zone
        if stem == "cmpxchg":
            src = ops[0]
            acc = "%" + sub("rax", size)
            out += ["  push %" + T, "  mov%s %s, %s" % (sfx, mem, t)]
            out += self.yld("M", raw + "   [micro-op 2: compare+store]")
            out += ["  cmp%s %s, %s" % (sfx, t, acc), "  jne %s_f" % L,
                    "  mov%s %s, %s" % (sfx, src, mem), "  jmp %s_e" % L,
                    "%s_f:" % L, "  mov%s %s, %s" % (sfx, t, mem), "  mov %s, %s" % (t, acc),
                    "%s_e:" % L, "  pop %" + T, "  lea 128(%rsp), %rsp"]
        elif stem == "xadd":
            src = ops[0]
            out += ["  push %" + T, "  push %" + U, "  mov%s %s, %s" % (sfx, mem, t)]
            out += self.yld("M", raw + "   [micro-op 2: add+store]")
            out += ["  mov %s, %s" % (t, u), "  add%s %s, %s" % (sfx, src, t), "  mov%s %s, %s" % (sfx, t, mem),
                    "  mov %s, %s" % (u, src), "  pop %" + U, "  pop %" + T, "  lea 128(%rsp), %rsp"]
        elif stem in RMW_UN:
            out += ["  push %" + T, "  mov%s %s, %s" % (sfx, mem, t)]
            out += self.yld("M", raw + "   [micro-op 2: compute+store]")
            out += ["  %s%s %s" % (stem, sfx, t), "  mov%s %s, %s" % (sfx, t, mem), "  pop %" + T, "  lea 128(%rsp), %rsp"]
        else:
            src = ops[0]
            out += ["  push %" + T, "  mov%s %s, %s" % (sfx, mem, t)]
            out += self.yld("M", raw + "   [micro-op 2: compute+store]")
            out += ["  %s%s %s, %s" % (stem, sfx, src, t), "  mov%s %s, %s" % (sfx, t, mem), "  pop %" + T, "  lea 128(%rsp), %rsp"]
        return out

    def rewrite(self, text):
        out = []
        for line in text.splitlines():
            s = line.strip()
            if not s or s.startswith(".") or s.startswith("#"):
                out.append(line)
                continue
            m = re.match(r"^([A-Za-z_.$][\w.$]*):\s*(.*)$", s)
            if m and not s.startswith("lock"):
                if not m.group(1).startswith(".L") and not m.group(1)[0].isdigit():
                    self.func = m.group(1)
                out.append(m.group(1) + ":")
                s = m.group(2)
                if not s:
                    continue
            if re.match(r"^\d+:$", s):
                out.append(line)
                continue
            for ins in s.split(";"):
                ins = ins.strip()
                if ins:
                    out += self.one(ins)
        return "\n".join(out) + "\n"


def main():
    inp, outp, sitesc, base, tag = sys.argv[1], sys.argv[2], sys.argv[3], int(sys.argv[4]), sys.argv[5]
    rw = Rewriter(base, tag)
    res = rw.rewrite(open(inp).read())
    open(outp, "w").write(res)
    with open(sitesc, "w") as f:
        f.write("// generated by rewrite.py from %s\n" % inp)
        f.write("const int sim_sites_%s_base = %d;\nconst int sim_sites_%s_n = %d;\n" % (tag, base, tag, len(rw.sites)))
        f.write("const char sim_site_kind_%s[] = \"%s\";\n" % (tag, "".join(k for k, _, _ in rw.sites)))
        f.write("const char *const sim_site_text_%s[] = {\n" % tag)
        for k, fn, t in rw.sites:
            f.write('  "%s: %s",\n' % (fn, t.replace("\\", "\\\\").replace('"', '\\"')))
        f.write("  0};\n")
    print(" ".join("%s=%d" % kv for kv in sorted(rw.stats.items())))


if __name__ == "__main__":
    main()
