// isched: instruction-level deterministic scheduler for the atomic sequences chibicc emits.
//
// The operation functions (cc_*, pic_*) are the real output of the chibicc under test, rewritten
// by rewrite.py so that __sim_yield is called before every shared-memory instruction. Simulated
// threads are coroutines in one OS thread; a seeded scheduler decides at every yield who executes
// the next instruction. Histories are checked for linearizability against the sequential
// specification ref_* (the same source line compiled by gcc).
//
//   isched seqdiff  [excl-out]                 every op x both builds x K samples, one thread
//   isched batch <master> <first> <count>      seeded concurrent runs
//   isched run <seed> [-v]                     one seeded run
//   isched replay <planfile> [-v]              a plan with an explicit preemption list
//   isched list                                the operation table
// env: ISCHED_EXCLUDE=file (op names not to use), ISCHED_ONLY=substring, ISCHED_MAXOPS, ISCHED_MAXT
#define _GNU_SOURCE
#include <setjmp.h>
#include <signal.h>
#include <stddef.h>
#include <stdint.h>
#include <stdio.h>
#include <stdlib.h>
#include <string.h>
#include <ucontext.h>
#include <unistd.h>
#include "isched.h"

#define MAXT 4
#define MAXOPS 8
#define MAXOBJ 3
#define MAXSTATE 144
#define MAXPRE 8192
#define STACKSZ (256 * 1024)
#define CONTENDED_CAP 4000
#define DRAIN_CAP 120000
#define DRAIN_QUANTUM 200
#define MAXFL 4096
#define SBCAP 32

enum { K_BOOL, K_INT, K_FLOAT, K_DOUBLE, K_PTR, K_FLAG, K_SPIN, K_TICKET, K_TSTACK, K_LDOUBLE };
enum { S_RANDOM, S_PCT, S_TARGET, S_STALL, S_SERIAL, S_REPLAY, S_STARVE, NSTRAT };
static const char *stratname[] = {"random", "pct", "targeted", "stall", "serial", "replay", "starve"};
enum { C_OK, C_NONLIN, C_LIVELOCK, C_NEIGHBOUR, C_CRASH };
static const char *clsname[] = {"ok", "not-linearizable", "livelock", "neighbour-clobbered", "crash"};

typedef struct { short op, obj; long a, b; } POp;
typedef struct { int group; int size; int adjacent; int local; unsigned char init[MAXSTATE]; } PObj;
typedef struct { short x; int k; short y; } Pre;
typedef struct {
  int build, nobj, nthreads;
  PObj obj[MAXOBJ];
  int nops[MAXT];
  POp ops[MAXT][MAXOPS];
  int strategy, p_den, pct_d, stall_t, stall_k, stall_len;
  uint64_t sched_seed;
  int cap;            // contended steps before the fair drain phase (0 = CONTENDED_CAP); part of the plan, so that a replay has it too
  int mix;            // threads alternate between the default and the -fPIC build: the same object operated on from two object files
  int tso, flush_den; // store-buffer model on/off; a buffered store becomes visible at a decision point with probability 1/flush_den
  int nfl;
  int npre;
  Pre pre[MAXPRE];
  Pre fl[MAXFL];      // replay: when thread x is at its k-th decision point, the oldest buffered store of thread y becomes visible
} Plan;

typedef struct { long ret, bout; unsigned inv, resp; int done; } OpRes;
typedef struct {
  int cls;
  OpRes r[MAXT][MAXOPS];
  unsigned char final[MAXOBJ][MAXSTATE];
  long steps, switches, conflict_windows, msteps, cas_fail_writeback, drained, stall_fired, pct_fired;
  long sb_buffered, sb_flushed, sb_forced, sb_windows, sb_forwarded; // stores that went through a buffer; made visible by the scheduler; by a barrier / own overlapping load; loads that overtook an own buffered store
  uint64_t loghash;
  int badobj;
  char detail[400];
  int nfl;
  int npre;
  Pre pre[MAXPRE];
  Pre fl[MAXFL];
} Result;

// ------------------------------------------------------------------ rng
static uint64_t rs;
static uint64_t rnd(void) {
  uint64_t z = (rs += 0x9E3779B97F4A7C15ull);
  z = (z ^ (z >> 30)) * 0xBF58476D1CE4E5B9ull;
  z = (z ^ (z >> 27)) * 0x94D049BB133111EBull;
  return z ^ (z >> 31);
}
static int below(int n) { return n > 0 ? (int)(rnd() % (uint64_t)n) : 0; }
static uint64_t sm64(uint64_t x) {
  x += 0x9E3779B97F4A7C15ull;
  uint64_t z = x;
  z = (z ^ (z >> 30)) * 0xBF58476D1CE4E5B9ull;
  z = (z ^ (z >> 27)) * 0x94D049BB133111EBull;
  return z ^ (z >> 31);
}
static uint64_t mixseed(uint64_t master, uint64_t i) { return sm64(sm64(master) ^ (i * 0xD6E8FEB86659FD93ull)); }
static void hmix(uint64_t *h, uint64_t v) { *h = (*h ^ v) * 0x100000001b3ull; }

// ------------------------------------------------------------------ site tables (from rewrite.py)
extern const int sim_sites_cc_base, sim_sites_cc_n, sim_sites_pic_base, sim_sites_pic_n;
extern const char sim_site_kind_cc[], sim_site_kind_pic[];
extern const char *const sim_site_text_cc[], *const sim_site_text_pic[];
static char site_kind(long s) {
  if (s >= sim_sites_pic_base && s < sim_sites_pic_base + sim_sites_pic_n) return sim_site_kind_pic[s - sim_sites_pic_base];
  if (s >= sim_sites_cc_base && s < sim_sites_cc_base + sim_sites_cc_n) return sim_site_kind_cc[s - sim_sites_cc_base];
  return '?';
}
static const char *site_text(long s) {
  if (s == -1) return "(between operations)";
  if (s == -2) return "(thread finished)";
  if (s == -3) return "(owner waits for the other threads before its frame dies)";
  if (s >= sim_sites_pic_base && s < sim_sites_pic_base + sim_sites_pic_n) return sim_site_text_pic[s - sim_sites_pic_base];
  if (s >= sim_sites_cc_base && s < sim_sites_cc_base + sim_sites_cc_n) return sim_site_text_cc[s - sim_sites_cc_base];
  return "?";
}

// ------------------------------------------------------------------ op table helpers
static char *excluded;
static int *group_first, *group_n, *group_ops; // ops of each group
static int tkind_of(const struct opinfo *o) {
  if (o->storage == 5) {
    if (!strcmp(o->opname, "spin")) return K_SPIN;
    if (!strcmp(o->opname, "ticket")) return K_TICKET;
    if (!strcmp(o->opname, "tpush") || !strcmp(o->opname, "tpopall")) return K_TSTACK;
    return K_INT;
  }
  if (!strcmp(o->type, "_Bool")) return K_BOOL;
  if (!strcmp(o->type, "long double")) return K_LDOUBLE;
  if (!strcmp(o->type, "float")) return K_FLOAT;
  if (!strcmp(o->type, "double")) return K_DOUBLE;
  if (!strcmp(o->type, "long *")) return K_PTR;
  if (!strcmp(o->type, "atomic_flag")) return K_FLAG;
  return K_INT;
}
static int is_signed_type(const char *t) { return !strstr(t, "unsigned") && strcmp(t, "_Bool"); }

static void init_tables(void) {
  excluded = calloc(noptable, 1);
  group_first = calloc(ngroups + 1, sizeof(int));
  group_n = calloc(ngroups + 1, sizeof(int));
  group_ops = calloc(noptable, sizeof(int));
  for (int i = 0; i < noptable; i++) group_n[optable[i].group]++;
  int acc = 0;
  for (int g = 0; g < ngroups; g++) { group_first[g] = acc; acc += group_n[g]; group_n[g] = 0; }
  for (int i = 0; i < noptable; i++) { int g = optable[i].group; group_ops[group_first[g] + group_n[g]++] = i; }
  const char *ex = getenv("ISCHED_EXCLUDE");
  if (ex) {
    FILE *f = fopen(ex, "r");
    char line[128];
    while (f && fgets(line, sizeof line, f)) {
      line[strcspn(line, "\r\n")] = 0;
      for (int i = 0; i < noptable; i++)
        if (!strcmp(optable[i].name, line)) excluded[i] = 1;
    }
    if (f) fclose(f);
  }
  const char *only = getenv("ISCHED_ONLY");
  if (only && *only)
    for (int i = 0; i < noptable; i++)
      if (!strstr(optable[i].name, only)) excluded[i] = 1;
}
static int find_op(const char *name) {
  for (int i = 0; i < noptable; i++)
    if (!strcmp(optable[i].name, name)) return i;
  return -1;
}

// ------------------------------------------------------------------ simulated machine
int sim_active; // read by yield.S
static ucontext_t main_ctx, ctx[MAXT];
static char stacks[MAXT][STACKSZ] __attribute__((aligned(64)));
static int cur = -1;
static const Plan *P;
static Result *R;
static int done[MAXT], blocked[MAXT], lcount[MAXT], inflight[MAXT], pending_window[MAXT], loaded_in_op[MAXT];
static int own_k; // next operation of the owner thread (automatic-storage plans)
static unsigned stamp;
static int phase, quantum, samerun, verbose;
static int prio[MAXT], pct_cp[4], pct_low;
static int stalled_until; // step at which the stalled thread may run again (S_STALL)
static int starve_budget; // S_STARVE: locked instructions the aggressor may still execute before the victim gets its turn
static int pre_used[MAXPRE];
static sigjmp_buf crash_jb;
static void *objaddr[MAXOBJ];
static unsigned char arena[1024] __attribute__((aligned(64)));
// ---- store buffers (x86-TSO): a plain store goes into its thread's FIFO and reaches memory later; the thread's own loads
// see it (an overlapping load drains the buffer first, which TSO allows), locked instructions, xchg and mfence drain it
typedef struct { unsigned char *addr; int size; int opk; long seq; unsigned char bytes[16]; } SBEnt;
static SBEnt sb[MAXT][SBCAP];
static int sb_head[MAXT], sb_n[MAXT];
static struct { int active; unsigned char *addr; int size; unsigned char old[16]; unsigned short fwd; } sb_pend[MAXT]; // active: 1 store, 2 forwarded load
static int tso_on;
static int fl_used[MAXFL];
// An operation that IS a plain store (atomic_store, atomic_flag_clear: chibicc spells them `*p = v`) takes effect when its
// store leaves the buffer, not when the function returns: its response is stamped then. That is the most a plain store can
// promise under TSO, it is outside this property (not a read-modify-write), and it lets such operations share a run with the
// read-modify-writes whose interplay with them IS inside (an "identity" RMW compiled to a plain load would read the buffer).
static int curop[MAXT];               // index of the operation thread t is executing (-1 between operations)
static int sb_out[MAXT][MAXOPS];      // buffered stores of that operation not yet visible
static int sb_defer[MAXT][MAXOPS];    // response still to be stamped
static long sb_seq[MAXT], sb_need[MAXT][MAXOPS]; // entries are numbered; a plain LOAD operation that was served from the buffer
                                      // responds when the newest entry it could have read (sb_need) has become visible
static int sb_fwd_in_op[MAXT];
#define SENT(i) ((unsigned char)(0xA5 ^ ((i) * 31)))

static int runnable_count(void) {
  int n = 0;
  for (int t = 0; t < P->nthreads; t++) n += !done[t] && !blocked[t];
  return n;
}
static int next_runnable_after(int t) {
  for (int i = 1; i <= P->nthreads; i++) {
    int c = (t + i) % P->nthreads;
    if (!done[c] && !blocked[c]) return c;
  }
  return -1;
}
static int nth_runnable(int n) {
  int cnt = runnable_count();
  if (!cnt) return -1;
  n %= cnt;
  for (int t = 0; t < P->nthreads; t++)
    if (!done[t] && !blocked[t] && n-- == 0) return t;
  return -1;
}

// decides who executes next; kind: site kind, 'B' between operations, 'E' thread end
static int choose(char kind) {
  int me = cur, me_ok = !done[me] && !blocked[me];
  if (runnable_count() == 0) {
    // only the owner of an automatic object may be left, waiting for the others to finish with it
    for (int t = 0; t < P->nthreads; t++)
      if (!done[t] && blocked[t]) { blocked[t] = 0; return t; }
    return -1;
  }
  if (phase == 1) { // drain: fair round-robin with a long quantum; interference stops for whoever runs
    if (!me_ok || ++quantum > DRAIN_QUANTUM) { quantum = 0; return next_runnable_after(me); }
    return me;
  }
  switch (P->strategy) {
  case S_REPLAY: {
    for (int i = 0; i < P->npre; i++)
      if (!pre_used[i] && P->pre[i].x == me && P->pre[i].k == lcount[me]) {
        pre_used[i] = 1;
        int y = P->pre[i].y;
        if (y >= 0 && y < P->nthreads && !done[y] && !blocked[y]) return y;
        return nth_runnable(y < 0 ? 0 : y);
      }
    return me_ok ? me : nth_runnable(0);
  }
  case S_SERIAL:
    return me_ok ? me : nth_runnable(0);
  case S_RANDOM:
    if (!me_ok || below(P->p_den) == 0) return nth_runnable(below(MAXT * 3));
    return me;
  case S_TARGET: {
    int p8; // probability in eighths
    if (kind == 'S' || kind == 'A' || kind == 'M') p8 = loaded_in_op[me] ? 6 : 2;
    else if (kind == 'B') p8 = 2;
    else p8 = 1;
    if (!me_ok || below(8) < p8) {
      int y = nth_runnable(below(MAXT * 3));
      if (y == me && runnable_count() > 1) y = next_runnable_after(me);
      return y;
    }
    return me;
  }
  case S_PCT: {
    for (int i = 0; i < P->pct_d; i++)
      if (R->steps == pct_cp[i] && me_ok) { prio[me] = pct_low--; R->pct_fired++; }
    if (samerun > 400 && me_ok) { prio[me] = pct_low--; samerun = 0; } // a spinning thread yields the CPU eventually
    int best = -1;
    for (int t = 0; t < P->nthreads; t++)
      if (!done[t] && !blocked[t] && (best < 0 || prio[t] > prio[best])) best = t;
    return best;
  }
  case S_STARVE: {
    // starvation: whenever a victim (every thread but the last) is about to execute a locked instruction or a plain store to
    // shared memory, the aggressor (the last thread, which runs a long series of successful updates) gets one update in
    // first. A victim's compare-exchange loop thus fails as many times in a row as the aggressor has updates left.
    int agg = P->nthreads - 1;
    int agg_ok = !done[agg] && !blocked[agg];
    if (me != agg) {
      if (me_ok && agg_ok && (kind == 'A' || kind == 'S')) { starve_budget = 0; return agg; } // (the aggressor resumes INTO the locked instruction it was about to execute: that is its one update)
      return me_ok ? me : nth_runnable(0);
    }
    if (kind == 'A' || kind == 'E' || !me_ok) {
      if (starve_budget > 0 && me_ok) { starve_budget--; return me; }
      for (int t = 0; t < agg; t++) if (!done[t] && !blocked[t]) return t;
    }
    return me_ok ? me : nth_runnable(0);
  }
  case S_STALL: {
    int v = P->stall_t % P->nthreads;
    if (me == v && me_ok && lcount[me] == P->stall_k && runnable_count() > 1) {
      stalled_until = P->stall_len ? (int)R->steps + P->stall_len : 1 << 30;
      R->stall_fired++;
      return next_runnable_after(me);
    }
    int v_blocked = R->steps < stalled_until;
    if (!me_ok || below(8) == 0 || (me == v && v_blocked && runnable_count() > 1)) {
      for (int tries = 0; tries < 8; tries++) {
        int y = nth_runnable(below(MAXT * 3));
        if (!(y == v && v_blocked && runnable_count() > 1)) return y;
      }
      for (int t = 0; t < P->nthreads; t++)
        if (!done[t] && !blocked[t] && t != v) return t;
      return nth_runnable(0);
    }
    return me;
  }
  }
  return me_ok ? me : nth_runnable(0);
}

static void abort_run(int cls, const char *why) {
  R->cls = cls;
  snprintf(R->detail, sizeof R->detail, "%s", why);
  cur = -1;
  sim_active = 0;
  setcontext(&main_ctx);
}

static void sb_flush_one(int t) {
  if (!sb_n[t]) return;
  SBEnt *e = &sb[t][sb_head[t]];
  memcpy(e->addr, e->bytes, e->size);
  sb_head[t] = (sb_head[t] + 1) % SBCAP;
  sb_n[t]--;
  if (e->opk >= 0 && --sb_out[t][e->opk] == 0 && sb_defer[t][e->opk] == 1) {
    sb_defer[t][e->opk] = 0;
    R->r[t][e->opk].resp = ++stamp;
  }
  for (int k = 0; k < MAXOPS; k++)
    if (sb_defer[t][k] == 2 && sb_need[t][k] <= e->seq) { sb_defer[t][k] = 0; R->r[t][k].resp = ++stamp; }
}
static void sb_drain(int t) { while (sb_n[t]) sb_flush_one(t); }
static void sb_drain_all(void) { for (int t = 0; t < MAXT; t++) sb_drain(t); }
static int sb_overlaps(int t, const unsigned char *a, int n) {
  for (int i = 0; i < sb_n[t]; i++) {
    SBEnt *e = &sb[t][(sb_head[t] + i) % SBCAP];
    if (a < e->addr + e->size && e->addr < a + n) return 1;
  }
  return 0;
}
// what thread t itself would read at p: memory overlaid with its own buffered stores, oldest first (the harness reads
// results the emitted code left behind through pointers)
static long sb_forward_long(int t, const long *p) {
  unsigned char v[8];
  memcpy(v, p, 8);
  for (int i = 0; i < sb_n[t]; i++) {
    SBEnt *e = &sb[t][(sb_head[t] + i) % SBCAP];
    for (int b = 0; b < e->size; b++) {
      long d = e->addr + b - (const unsigned char *)p;
      if (d >= 0 && d < 8) v[d] = e->bytes[b];
    }
  }
  long r;
  memcpy(&r, v, 8);
  return r;
}
// the scheduler's part: at a decision point of thread `me` some thread's oldest buffered store may become visible
static void sb_schedule(int me) {
  if (P->strategy == S_REPLAY) {
    for (int i = 0; i < P->nfl; i++)
      if (!fl_used[i] && P->fl[i].x == me && P->fl[i].k == lcount[me]) {
        fl_used[i] = 1;
        int y = P->fl[i].y;
        if (y >= 0 && y < MAXT && sb_n[y]) { sb_flush_one(y); R->sb_flushed++; if (R->nfl < MAXFL) { R->fl[R->nfl].x = me; R->fl[R->nfl].k = lcount[me]; R->fl[R->nfl].y = y; R->nfl++; } }
      }
    return;
  }
  if (P->flush_den <= 0 || below(P->flush_den)) return;
  int cand[MAXT], n = 0;
  for (int t = 0; t < P->nthreads; t++) if (sb_n[t]) cand[n++] = t;
  if (!n) return;
  int y = cand[below(n)];
  sb_flush_one(y);
  R->sb_flushed++;
  if (R->nfl < MAXFL) { R->fl[R->nfl].x = me; R->fl[R->nfl].k = lcount[me]; R->fl[R->nfl].y = y; R->nfl++; }
}

// one decision point of the current thread
static void decision(long site, char kind) {
  int me = cur;
  R->steps++;
  lcount[me]++;
  hmix(&R->loghash, ((uint64_t)me << 32) ^ (uint64_t)(site + 7));
  if (kind == 'M') R->msteps++;
  if (kind == 'L') loaded_in_op[me] = 1;
  // conflict-window bookkeeping (measure only): somebody was preempted inside an operation on
  // the object I am touching now
  if (inflight[me] >= 0 && kind != 'B' && kind != 'E')
    for (int t = 0; t < P->nthreads; t++)
      if (t != me && pending_window[t] && inflight[t] == inflight[me]) { R->conflict_windows++; pending_window[t] = 0; }
  if (verbose) printf("  step %ld: thread %d at %s\n", R->steps, me, site_text(site));
  if (phase == 0 && R->steps > (P->cap ? P->cap : CONTENDED_CAP)) { phase = 1; quantum = 0; R->drained = 1; if (tso_on) { sb_drain_all(); tso_on = 0; } }
  if (tso_on) sb_schedule(me);
  if (phase == 1 && R->steps > (P->cap ? P->cap : CONTENDED_CAP) + DRAIN_CAP) {
    static char why[300];
    snprintf(why, sizeof why, "threads still running after %d contended + %d fair steps; thread %d last at %s", CONTENDED_CAP,
             DRAIN_CAP, me, site_text(site));
    abort_run(C_LIVELOCK, why);
  }
  int next = choose(kind);
  if (next < 0) { // everybody done
    sb_drain_all(); // what is still buffered reaches memory eventually
    cur = -1;
    sim_active = 0;
    setcontext(&main_ctx);
  }
  if (next != me) {
    if (R->npre < MAXPRE) { R->pre[R->npre].x = me; R->pre[R->npre].k = lcount[me]; R->pre[R->npre].y = next; R->npre++; }
    R->switches++;
    samerun = 0;
    if (inflight[me] >= 0 && !done[me]) pending_window[me] = 1;
    pending_window[next] = 0;
    cur = next;
    if (done[me]) setcontext(&ctx[next]);
    else swapcontext(&ctx[me], &ctx[next]);
  } else
    samerun++;
}

void sim_yield_c(long site) {
  if (cur < 0) return;
  char kind = site_kind(site);
  decision(site, kind);
  // a locked instruction, xchg or mfence drains the executing thread's buffer; so does (conservatively, TSO allows a drain at
  // any time) an access whose address the simulator was not told
  if (tso_on && sb_n[cur]) { R->sb_forced += sb_n[cur]; sb_drain(cur); }
}

// a plain load or store of `size` bytes at `addr` is about to execute
void sim_access_c(long imm, unsigned char *addr) {
  if (cur < 0) return;
  long site = imm & 0xffffff;
  int size = (int)(imm >> 24) & 31, store = (int)(imm >> 30) & 1;
  // private memory: the thread's own stack, except an automatic object it has published
  int priv = addr >= (unsigned char *)stacks[cur] && addr < (unsigned char *)stacks[cur] + STACKSZ;
  if (priv && P->obj[0].local && objaddr[0] && addr < (unsigned char *)objaddr[0] + P->obj[0].size && (unsigned char *)objaddr[0] < addr + size) priv = 0;
  decision(site, store ? (priv ? 'p' : 'S') : 'L');
  int me = cur;
  if (!tso_on) return;
  if (store) {
    // private stores are not buffered: nobody else looks at that memory, and the harness reuses it between operations
    if (priv) return;
    sb_pend[me].active = 1;
    sb_pend[me].addr = addr;
    sb_pend[me].size = size;
    memcpy(sb_pend[me].old, addr, size);
  } else if (sb_n[me]) {
    if (sb_overlaps(me, addr, size)) {
      // store-to-load forwarding: the thread reads its own buffered bytes; nobody else sees them. For the one instruction
      // that follows, memory is overlaid with them (oldest entry first) and put back by the post hook.
      sb_pend[me].active = 2;
      sb_pend[me].addr = addr;
      sb_pend[me].size = size;
      sb_pend[me].fwd = 0;
      for (int i = 0; i < sb_n[me]; i++) {
        SBEnt *e = &sb[me][(sb_head[me] + i) % SBCAP];
        for (int b = 0; b < e->size; b++) {
          long d = e->addr + b - addr;
          if (d < 0 || d >= size) continue;
          if (!(sb_pend[me].fwd >> d & 1)) { sb_pend[me].old[d] = addr[d]; sb_pend[me].fwd |= 1u << d; }
          addr[d] = e->bytes[b];
        }
      }
      R->sb_forwarded++;
      sb_fwd_in_op[me] = 1;
    } else
      R->sb_windows++;
  }
}

// the store announced by sim_access_c has executed: move its bytes from memory into the buffer
void sim_store_post_c(void) {
  if (cur < 0) return;
  int me = cur;
  if (!sb_pend[me].active) return;
  if (sb_pend[me].active == 2) { // a forwarded load has executed: memory shows the globally visible bytes again
    for (int d = 0; d < sb_pend[me].size; d++)
      if (sb_pend[me].fwd >> d & 1) sb_pend[me].addr[d] = sb_pend[me].old[d];
    sb_pend[me].active = 0;
    return;
  }
  sb_pend[me].active = 0;
  if (sb_n[me] == SBCAP) { sb_flush_one(me); R->sb_forced++; }
  SBEnt *e = &sb[me][(sb_head[me] + sb_n[me]) % SBCAP];
  e->addr = sb_pend[me].addr;
  e->size = sb_pend[me].size;
  e->opk = curop[me];
  e->seq = ++sb_seq[me];
  if (e->opk >= 0) sb_out[me][e->opk]++;
  memcpy(e->bytes, e->addr, e->size);
  // memory shows, for now, what it showed before -- unless an older store of this thread to the same bytes is still
  // buffered too: then the older bytes are what memory must keep showing, and they are already there
  memcpy(e->addr, sb_pend[me].old, e->size);
  sb_n[me]++;
  R->sb_buffered++;
}

// ---- automatic storage: thread 0 runs the owner function emitted by chibicc, which calls back here
void sim_own_begin(void *ctx, void *obj) {
  (void)ctx;
  objaddr[0] = obj;
  memcpy(obj, P->obj[0].init, P->obj[0].size);
  for (int t = 1; t < P->nthreads; t++) blocked[t] = 0;
}
long sim_own_next(void *ctx, long *a, long *b) {
  (void)ctx;
  if (own_k >= P->nops[0]) return -1;
  decision(-1, 'B');
  const POp *o = &P->ops[0][own_k];
  *a = o->a;
  *b = o->b;
  loaded_in_op[0] = 0;
  R->r[0][own_k].inv = ++stamp;
  inflight[0] = 0;
  return optable[o->op].owncode;
}
void sim_own_done(void *ctx, long r, long b) {
  (void)ctx;
  const POp *o = &P->ops[0][own_k];
  OpRes *q = &R->r[0][own_k];
  inflight[0] = -1;
  q->resp = ++stamp;
  q->ret = r;
  q->bout = b;
  q->done = 1;
  if (optable[o->op].cls == 4 && r == 0 && b != o->b) R->cas_fail_writeback++;
  own_k++;
}
void sim_own_end(void *ctx) {
  (void)ctx;
  // the object dies with this frame: wait until nobody else uses it, then record its final value
  int others = 0;
  for (int t = 1; t < P->nthreads; t++) others += !done[t];
  if (others) {
    blocked[0] = 1;
    decision(-3, 'B');
  }
  sb_drain_all(); // the object dies with this frame: nothing may still be on its way to it
  memcpy(R->final[0], objaddr[0], P->obj[0].size);
}

static void worker(int t) {
  if (t == 0 && P->obj[0].local) {
    // which owner function runs (address published first / textually later / object is a parameter) is decided by the
    // thread's first operation; the operation codes mean the same in all of them
    const struct opinfo *oo = P->nops[0] > 0 && optable[P->ops[0][0].op].storage == 7 ? &optable[P->ops[0][0].op] : NULL;
    for (int i = 0; !oo && i < group_n[P->obj[0].group]; i++) {
      const struct opinfo *c = &optable[group_ops[group_first[P->obj[0].group] + i]];
      if (c->storage == 7) { oo = c; break; }
    }
    own_k = 0;
    oo->owner[P->build](NULL);
    done[t] = 1;
    decision(-2, 'E');
    abort();
  }
  for (int k = 0; k < P->nops[t]; k++) {
    decision(-1, 'B');
    const POp *o = &P->ops[t][k];
    OpRes *r = &R->r[t][k];
    long b = o->b;
    loaded_in_op[t] = 0;
    r->inv = ++stamp;
    inflight[t] = o->obj;
    curop[t] = k;
    sb_fwd_in_op[t] = 0;
    long ret = optable[o->op].fn[P->mix ? (P->build ^ (t & 1)) : P->build](objaddr[o->obj], o->a, &b);
    curop[t] = -1;
    inflight[t] = -1;
    int plain_store_op = optable[o->op].cls == 6 || strstr(optable[o->op].opname, "clear") != NULL;
    if (tso_on && !plain_store_op && optable[o->op].cls != 5 && optable[o->op].cls != 8) // (not the algorithms: a CAS loop may legitimately find nothing to do)
      // a read-modify-write is a full barrier: a plain store the same thread made before it is visible when it returns. If it is
      // not (nothing in the operation drained the buffer), the store's response is stamped here all the same -- later
      // operations of anybody may rely on it, whatever object they are about
      for (int q = 0; q < k; q++)
        if (sb_defer[t][q]) { sb_defer[t][q] = 0; R->r[t][q].resp = ++stamp; }
    if (tso_on && plain_store_op && sb_out[t][k] > 0) sb_defer[t][k] = 1; // stamped when the store becomes visible
    else if (tso_on && optable[o->op].cls == 5 && sb_fwd_in_op[t] && sb_n[t]) { sb_defer[t][k] = 2; sb_need[t][k] = sb_seq[t]; } // a plain load served from the buffer
    else r->resp = ++stamp;
    r->ret = ret;
    r->bout = tso_on ? sb_forward_long(t, &b) : b;
    r->done = 1;
    if (optable[o->op].cls == 4 && ret == 0 && b != o->b) R->cas_fail_writeback++;
  }
  done[t] = 1;
  decision(-2, 'E');
  abort(); // not reached
}

static void on_crash(int sig) {
  if (sim_active || cur >= 0) {
    cur = -1;
    sim_active = 0;
    siglongjmp(crash_jb, sig);
  }
  _exit(5);
}

// lays the objects out; ptr-like objects live in an arena of sentinel bytes
static void place_objects(const Plan *p) {
  for (unsigned i = 0; i < sizeof arena; i++) arena[i] = SENT(i);
  int off = 64;
  for (int j = 0; j < p->nobj; j++) {
    const struct opinfo *o = &optable[group_ops[group_first[p->obj[j].group]]];
    if (p->obj[j].local) {
      objaddr[j] = NULL;
      continue;
    }
    if (o->addr[p->build]) {
      objaddr[j] = o->addr[p->build]();
      if (o->storage == 3 || o->storage == 4 || o->storage == 9) { // neighbours of the same size on both sides
        unsigned char *q = objaddr[j];
        for (int i = 0; i < o->objsize; i++) { q[-1 - i] = SENT(i); q[o->objsize + i] = SENT(i + 64); }
      }
    } else {
      int sz = p->obj[j].size;
      if (!p->obj[j].adjacent || sz > 8) off = (off + 63) & ~63;
      else off = (off + sz - 1) & ~(sz - 1);
      objaddr[j] = arena + off;
      off += sz;
      if (!p->obj[j].adjacent) off += 40;
    }
    memcpy(objaddr[j], p->obj[j].init, p->obj[j].size);
  }
}

static int check_neighbours(const Plan *p, Result *r) {
  static unsigned char owned[sizeof arena];
  memset(owned, 0, sizeof owned);
  for (int j = 0; j < p->nobj; j++) {
    unsigned char *q = objaddr[j];
    const struct opinfo *o = &optable[group_ops[group_first[p->obj[j].group]]];
    if (p->obj[j].local) continue;
    if (q >= arena && q < arena + sizeof arena)
      memset(owned + (q - arena), 1, p->obj[j].size);
    else if (o->storage == 3 || o->storage == 4 || o->storage == 9)
      for (int i = 0; i < o->objsize; i++)
        if (q[-1 - i] != SENT(i) || q[o->objsize + i] != SENT(i + 64)) {
          r->badobj = j;
          snprintf(r->detail, sizeof r->detail, "a byte next to object %d (%s, %s) changed", j, o->type, o->name);
          return 1;
        }
  }
  for (unsigned i = 0; i < sizeof arena; i++)
    if (!owned[i] && arena[i] != SENT(i)) {
      r->badobj = -1;
      snprintf(r->detail, sizeof r->detail, "sentinel byte at arena offset %u changed (no object lives there)", i);
      return 1;
    }
  return 0;
}

// ------------------------------------------------------------------ linearizability (Wing-Gong / Lowe style search)
typedef struct { const struct opinfo *o; long a, bin, ret, bout; unsigned inv, resp; int t, k; } HOp;
static HOp hist[MAXT * MAXOPS];
static int nhist, hsize;
static unsigned char hfinal[MAXSTATE];
#define MEMO 16384
static struct { uint32_t mask; unsigned char st[MAXSTATE]; uint32_t gen; } memo[MEMO];
static uint32_t memogen;
static unsigned char refscratch[256] __attribute__((aligned(64)));
static long lin_nodes;

static void apply_ref(const HOp *h, unsigned char *st, long *ret, long *bout) {
  unsigned char *q = refscratch + 64;
  memcpy(q, st, hsize);
  long b = h->bin;
  *ret = h->o->ref(q, h->a, &b);
  *bout = b;
  memcpy(st, q, hsize);
}

static int lin_dfs(uint32_t mask, const unsigned char *st) {
  if (mask == (nhist == 32 ? 0xffffffffu : (1u << nhist) - 1)) return !memcmp(st, hfinal, hsize);
  if (++lin_nodes > 2000000) return 1; // bounded: give up in favour of the implementation (never observed)
  uint64_t h = mask * 0x9E3779B97F4A7C15ull;
  for (int i = 0; i < hsize; i++) hmix(&h, st[i]);
  unsigned slot = h % MEMO;
  for (int probe = 0; probe < 8; probe++) {
    unsigned s = (slot + probe) % MEMO;
    if (memo[s].gen != memogen) break;
    if (memo[s].mask == mask && !memcmp(memo[s].st, st, hsize)) return 0;
  }
  // minimal operations: not done, and no other not-done op responded before it was invoked
  unsigned minresp = ~0u;
  for (int i = 0; i < nhist; i++)
    if (!(mask >> i & 1) && hist[i].resp < minresp) minresp = hist[i].resp;
  for (int i = 0; i < nhist; i++) {
    if (mask >> i & 1) continue;
    if (hist[i].inv > minresp) continue;
    unsigned char st2[MAXSTATE];
    memcpy(st2, st, hsize);
    long ret, bout;
    apply_ref(&hist[i], st2, &ret, &bout);
    if (ret != hist[i].ret) continue;
    if (hist[i].o->usesb && bout != hist[i].bout) continue;
    if (lin_dfs(mask | 1u << i, st2)) return 1;
  }
  for (int probe = 0; probe < 8; probe++) {
    unsigned s = (slot + probe) % MEMO;
    if (memo[s].gen != memogen) { memo[s].gen = memogen; memo[s].mask = mask; memcpy(memo[s].st, st, hsize); break; }
  }
  return 0;
}

// hand-off list: every pushed node is delivered exactly once (or is still in the list), no batch is cyclic
static int check_tstack(const Plan *p, Result *r, int j) {
  long pushed = 0, seen = 0;
  for (int t = 0; t < p->nthreads; t++)
    for (int k = 0; k < p->nops[t]; k++) {
      const POp *o = &p->ops[t][k];
      if (o->obj != j) continue;
      if (!strcmp(optable[o->op].opname, "tpush")) { pushed |= 1L << (o->a & 7); continue; }
      long ret = r->r[t][k].ret;
      if (ret < 0) { snprintf(r->detail, sizeof r->detail, "thread %d's detach-all walked a cyclic or over-long batch", t); return 0; }
      long mask = ret & 0xffffffff, cnt = ret >> 32;
      if (__builtin_popcountl(mask) != cnt) { snprintf(r->detail, sizeof r->detail, "a node appears twice in one batch (thread %d)", t); return 0; }
      if (seen & mask) { snprintf(r->detail, sizeof r->detail, "node(s) %lx delivered twice", seen & mask); return 0; }
      seen |= mask;
    }
  // what is still in the list at the end (walk the real object: its links are addresses inside it)
  struct tn { struct tn *next; long id; };
  struct tn *h = *(struct tn **)objaddr[j];
  long rest = 0;
  for (int g = 0; h; h = h->next) {
    if (++g > 16 || (char *)h < (char *)objaddr[j] || (char *)h >= (char *)objaddr[j] + 136) { snprintf(r->detail, sizeof r->detail, "the remaining list is cyclic or points outside the object"); return 0; }
    if (rest >> h->id & 1) { snprintf(r->detail, sizeof r->detail, "node %ld twice in the remaining list", h->id); return 0; }
    rest |= 1L << h->id;
  }
  if (seen & rest) { snprintf(r->detail, sizeof r->detail, "node(s) %lx delivered and still in the list", seen & rest); return 0; }
  if ((seen | rest) != pushed) { snprintf(r->detail, sizeof r->detail, "pushed %lx, delivered %lx, remaining %lx: node(s) %lx lost", pushed, seen, rest, pushed & ~(seen | rest)); return 0; }
  return 1;
}

static int check_linearizable(const Plan *p, Result *r) {
  for (int j = 0; j < p->nobj; j++) {
    if (tkind_of(&optable[group_ops[group_first[p->obj[j].group]]]) == K_TSTACK) {
      if (!check_tstack(p, r, j)) { r->badobj = j; return 0; }
      continue;
    }
    nhist = 0;
    hsize = p->obj[j].size;
    for (int t = 0; t < p->nthreads; t++)
      for (int k = 0; k < p->nops[t]; k++)
        if (p->ops[t][k].obj == j) {
          HOp *h = &hist[nhist++];
          h->o = &optable[p->ops[t][k].op];
          h->a = p->ops[t][k].a;
          h->bin = p->ops[t][k].b;
          h->ret = r->r[t][k].ret;
          h->bout = r->r[t][k].bout;
          h->inv = r->r[t][k].inv;
          h->resp = r->r[t][k].resp;
          h->t = t;
          h->k = k;
        }
    memcpy(hfinal, r->final[j], hsize);
    memogen++;
    lin_nodes = 0;
    if (!lin_dfs(0, p->obj[j].init)) {
      r->badobj = j;
      return 0;
    }
  }
  return 1;
}

// ------------------------------------------------------------------ run one plan
static void run_plan(const Plan *p, Result *r) {
  memset(r, 0, offsetof(Result, pre));
  r->npre = 0;
  r->loghash = 0xcbf29ce484222325ull;
  r->badobj = -1;
  P = p;
  R = r;
  rs = p->sched_seed;
  place_objects(p);
  stamp = 0;
  phase = quantum = samerun = 0;
  stalled_until = 0;
  starve_budget = 0;
  memset(pre_used, 0, sizeof(int) * (p->npre < MAXPRE ? p->npre : MAXPRE));
  memset(fl_used, 0, sizeof(int) * (p->nfl < MAXFL ? p->nfl : MAXFL));
  r->nfl = 0;
  tso_on = p->tso;
  for (int t = 0; t < MAXT; t++) { sb_head[t] = sb_n[t] = 0; sb_pend[t].active = 0; curop[t] = -1; sb_seq[t] = 0; }
  memset(sb_out, 0, sizeof sb_out);
  memset(sb_defer, 0, sizeof sb_defer);
  own_k = 0;
  for (int t = 0; t < MAXT; t++) { done[t] = 1; blocked[t] = 0; lcount[t] = 0; inflight[t] = -1; pending_window[t] = 0; loaded_in_op[t] = 0; }
  if (p->strategy == S_PCT) {
    int perm[MAXT] = {0, 1, 2, 3};
    for (int i = MAXT - 1; i > 0; i--) { int j = below(i + 1), x = perm[i]; perm[i] = perm[j]; perm[j] = x; }
    int tot = 0;
    for (int t = 0; t < p->nthreads; t++) { prio[t] = 100 + perm[t]; tot += p->nops[t]; }
    pct_low = 50;
    for (int i = 0; i < 4; i++) pct_cp[i] = 1 + below(tot * 25 + 10);
  }
  for (int t = 0; t < p->nthreads; t++) {
    done[t] = 0;
    blocked[t] = t > 0 && p->obj[0].local; // nobody can reach an automatic object before its owner publishes it
    getcontext(&ctx[t]);
    ctx[t].uc_stack.ss_sp = stacks[t];
    ctx[t].uc_stack.ss_size = STACKSZ;
    ctx[t].uc_link = &main_ctx;
    makecontext(&ctx[t], (void (*)(void))worker, 1, t);
  }
  int sig = sigsetjmp(crash_jb, 1);
  if (sig) {
    r->cls = C_CRASH;
    snprintf(r->detail, sizeof r->detail, "signal %d while executing emitted code", sig);
    return;
  }
  volatile int started = 0;
  getcontext(&main_ctx);
  if (!started) {
    started = 1;
    // the first thread to run is a scheduling choice too
    cur = 0;
    int first = p->strategy == S_REPLAY || p->strategy == S_SERIAL ? 0 : below(p->nthreads);
    if (p->strategy == S_REPLAY && p->npre > 0 && p->pre[0].x == -1) { first = p->pre[0].y % p->nthreads; pre_used[0] = 1; }
    if (p->strategy == S_PCT) {
      first = 0;
      for (int t = 1; t < p->nthreads; t++) if (prio[t] > prio[first]) first = t;
    }
    if (p->obj[0].local) first = 0; // the owner publishes the object before anybody can touch it
    r->pre[r->npre].x = -1; r->pre[r->npre].k = 0; r->pre[r->npre].y = first; r->npre++;
    cur = first;
    sim_active = 1;
    setcontext(&ctx[first]);
  }
  sim_active = 0;
  cur = -1;
  if (r->cls) return;
  for (int j = 0; j < p->nobj; j++)
    if (!p->obj[j].local) memcpy(r->final[j], objaddr[j], p->obj[j].size);
  if (check_neighbours(p, r)) { r->cls = C_NEIGHBOUR; return; }
  if (!check_linearizable(p, r)) {
    r->cls = C_NONLIN;
    if (!r->detail[0])
      snprintf(r->detail, sizeof r->detail, "no sequential order of the operations on object %d explains the observed results and final value", r->badobj);
  }
}

// ------------------------------------------------------------------ generation
static long gen_value(int domain, int idx) {
  switch (domain) {
  case 0: return below(8) - 2;
  case 1: return 1L << (idx % 62);
  case 2: return below(256);
  default: return (long)rnd() >> below(48);
  }
}

static void gen_init(PObj *o, int kind, int size, int domain) {
  memset(o->init, 0, sizeof o->init);
  long v = gen_value(domain == 1 ? 0 : domain, 0);
  switch (kind) {
  case K_BOOL:
  case K_FLAG: o->init[0] = below(2); break;
  case K_FLOAT: {
    float f = (float)v;
    int sp = below(12); // special values now and then: NaN, -0.0, infinity (compared as bit patterns by compare-exchange)
    if (sp == 0) f = __builtin_nanf(""); else if (sp == 1) f = -0.0f; else if (sp == 2) f = __builtin_inff();
    memcpy(o->init, &f, 4);
    break;
  }
  case K_DOUBLE: {
    double d = (double)v;
    int sp = below(12);
    if (sp == 0) d = __builtin_nan(""); else if (sp == 1) d = -0.0; else if (sp == 2) d = -__builtin_inf();
    memcpy(o->init, &d, 8);
    break;
  }
  case K_LDOUBLE: { long double q = (long double)(v % 100000); memcpy(o->init, &q, 10); break; } // the six padding bytes stay zero: fstpt leaves them alone
  case K_PTR: { long q = v * 8; memcpy(o->init, &q, 8); break; }
  case K_SPIN: memcpy(o->init + 8, &v, 8); break;
  case K_TSTACK: break; // empty list, all links null
  case K_TICKET: {
    unsigned n = below(3) == 0 ? 0xfffffffdu + below(3) : (unsigned)below(5);
    memcpy(o->init, &n, 4);
    memcpy(o->init + 4, &n, 4);
    memcpy(o->init + 8, &v, 8);
    break;
  }
  default: memcpy(o->init, &v, size); break;
  }
}

// want_local: 1 = only the owner's by-name operations (storage 7), 0 = only the others
static int usable_in_group2(int g, unsigned clsmask, int want_local) {
  int n = 0;
  for (int i = 0; i < group_n[g]; i++) {
    int op = group_ops[group_first[g] + i];
    if (!excluded[op] && (clsmask >> optable[op].cls & 1) && (optable[op].storage == 7) == want_local) n++;
  }
  return n;
}
static int usable_in_group(int g, unsigned clsmask) { return usable_in_group2(g, clsmask, 0); }

static int maxops_env = 5, maxt_env = MAXT;

static int gen_starve(Plan *p) {
  int storms[64], ns = 0;
  for (int c = 0; c < noptable && ns < 64; c++)
    if (!excluded[c] && !strcmp(optable[c].opname, "storm")) storms[ns++] = c;
  if (!ns) return -1;
  int st = storms[below(ns)], g = optable[st].group;
  int voids[16], nv = 0;
  for (int i = 0; i < group_n[g] && nv < 16; i++) {
    int c = group_ops[group_first[g] + i];
    const char *n = optable[c].opname;
    if (!excluded[c] && optable[c].storage == optable[st].storage && (!strcmp(n, "add_void") || !strcmp(n, "inc_void") || !strcmp(n, "fadd_void") || !strcmp(n, "dec_for"))) voids[nv++] = c;
  }
  if (!nv) return -1;
  p->build = below(2);
  p->nthreads = 2 + (below(3) == 0);
  p->nobj = 1;
  p->obj[0].group = g;
  p->obj[0].size = optable[st].objsize;
  p->obj[0].adjacent = below(2);
  gen_init(&p->obj[0], tkind_of(&optable[st]), optable[st].objsize, 0);
  for (int t = 0; t < p->nthreads - 1; t++) {
    p->nops[t] = 1 + below(2);
    for (int k = 0; k < p->nops[t]; k++) { POp *o = &p->ops[t][k]; o->op = voids[below(nv)]; o->obj = 0; o->a = 1 + below(9); o->b = 0; }
  }
  int a = p->nthreads - 1;
  p->nops[a] = 1;
  p->ops[a][0].op = st; p->ops[a][0].obj = 0; p->ops[a][0].a = 0; p->ops[a][0].b = 0;
  p->strategy = S_STARVE;
  p->cap = 25 * CONTENDED_CAP;
  p->p_den = 2; p->pct_d = 1;
  p->sched_seed = rnd();
  return 0;
}

static int gen(Plan *p, uint64_t seed) {
  rs = seed;
  memset(p, 0, offsetof(Plan, pre));
  if (maxt_env > 1 && below(300) == 0 && gen_starve(p) == 0) return 0; // retry depth: one plan in three hundred starves its victims (each costs some 7000 steps)
  p->build = below(2);
  int x = below(20);
  p->nthreads = x < 1 ? 1 : x < 11 ? 2 : x < 17 ? 3 : 4;
  if (p->nthreads > maxt_env) p->nthreads = maxt_env;
  x = below(10);
  p->nobj = x < 7 ? 1 : x < 9 ? 2 : 3;
  static const unsigned mixes[] = {0x1ff, 0x1ff, 0x007, 0x118, 0x001, 0x1df, 0x05f, 0x116, 0x100 | 0x1f};
  unsigned clsmask = mixes[below(9)];
  int domain = below(4);
  int adjacent = below(2);
  for (int j = 0; j < p->nobj; j++) {
    int g = -1;
    for (int tries = 0; tries < 200; tries++) {
      int c = below(ngroups);
      if (!usable_in_group(c, 0x1ff)) continue;
      int dup = 0;
      const struct opinfo *o = &optable[group_ops[group_first[c]]];
      for (int q = 0; q < j; q++) if (p->obj[q].group == c && o->addr[0]) dup = 1;
      if (dup) continue;
      g = c;
      break;
    }
    if (g < 0) return -1;
    const struct opinfo *o = &optable[group_ops[group_first[g]]];
    p->obj[j].group = g;
    p->obj[j].size = o->objsize;
    p->obj[j].adjacent = adjacent;
    p->obj[j].local = 0;
    gen_init(&p->obj[j], tkind_of(o), o->objsize, domain);
  }
  // automatic storage: one object owned by thread 0's frame, the other threads reach it through its address
  if (p->nobj == 1 && usable_in_group2(p->obj[0].group, 0x1ff, 1) && below(3) == 0) p->obj[0].local = 1;
  int idx = 0;
  int tpush_used[MAXOBJ] = {0};
  long used_a[MAXOBJ][MAXT * MAXOPS];
  int nused[MAXOBJ] = {0};
  for (int t = 0; t < p->nthreads; t++) {
    p->nops[t] = 1 + below(maxops_env);
    if (p->nops[t] > MAXOPS) p->nops[t] = MAXOPS;
    for (int k = 0; k < p->nops[t]; k++) {
      POp *o = &p->ops[t][k];
      int j = below(p->nobj), g = p->obj[j].group;
      int wl = p->obj[j].local && t == 0;
      unsigned m = usable_in_group2(g, clsmask, wl) ? clsmask : 0x1ff;
      int n = usable_in_group2(g, m, wl), pick = below(n), op = -1;
      for (int i = 0; i < group_n[g]; i++) {
        int c = group_ops[group_first[g] + i];
        if (!excluded[c] && (m >> optable[c].cls & 1) && (optable[c].storage == 7) == wl && pick-- == 0) { op = c; break; }
      }
      if (op < 0) return -1;
      o->op = op;
      o->obj = j;
      o->a = gen_value(domain, idx++);
      if (!strcmp(optable[op].opname, "tpush")) {
        // a node is pushed at most once per run; when the eight nodes are used up the operation becomes a detach-all
        if (tpush_used[j] >= 8) { for (int c = 0; c < noptable; c++) if (!strcmp(optable[c].opname, "tpopall")) o->op = c; }
        else o->a = tpush_used[j]++;
      }
      if (optable[op].usesb) {
        int kind = tkind_of(&optable[op]);
        int c = below(4);
        long iv = 0;
        if (kind == K_FLOAT) { float f; memcpy(&f, p->obj[j].init, 4); iv = (long)f; }
        else if (kind == K_DOUBLE) { double d; memcpy(&d, p->obj[j].init, 8); iv = (long)d; }
        else if (kind == K_BOOL) iv = p->obj[j].init[0];
        else {
          memcpy(&iv, p->obj[j].init, optable[op].objsize);
          int sh = 64 - 8 * optable[op].objsize;
          if (sh) iv = is_signed_type(optable[op].type) ? (long)((uint64_t)iv << sh) >> sh : (long)(((uint64_t)iv << sh) >> sh);
        }
        if (c == 0) o->b = iv;
        else if (c == 1 && nused[j]) o->b = used_a[j][below(nused[j])];
        else if (c == 2) o->b = gen_value(domain, below(8));
        else o->b = iv + below(3) - 1;
      }
      used_a[j][nused[j]++] = o->a;
    }
  }
  x = below(16);
  p->strategy = p->nthreads == 1 ? S_SERIAL : x < 5 ? S_RANDOM : x < 9 ? S_TARGET : x < 12 ? S_PCT : x < 15 ? S_STALL : S_SERIAL;
  static const int dens[] = {2, 4, 16};
  p->p_den = dens[below(3)];
  p->pct_d = 1 + below(3);
  p->stall_t = below(MAXT);
  p->stall_k = 1 + below(40);
  p->stall_len = below(3) == 0 ? 0 : 20 + below(400);
  p->sched_seed = rnd();
  p->npre = 0;
  p->nfl = 0;
  // store-buffer model for a quarter of the multi-threaded plans (decided below). Operations that ARE plain stores by design
  // (atomic_store, atomic_flag_clear as chibicc's <stdatomic.h> spells them) respond when their store becomes visible.
  // a quarter of the plans let every thread run ONE operation function (whatever hidden state the emitted code keeps per
  // function is then shared by all of them at once); a quarter of the plans whose objects are reached through pointers let
  // odd threads use the other build's code (two object files operating on one object)
  if (p->nthreads > 1 && below(4) == 0) {
    const POp *o0 = &p->ops[0][0];
    if (!p->obj[0].local && strcmp(optable[o0->op].opname, "tpush"))
      for (int t = 0; t < p->nthreads; t++)
        for (int k = 0; k < p->nops[t]; k++) { p->ops[t][k].op = o0->op; p->ops[t][k].obj = o0->obj; }
  }
  p->mix = p->nthreads > 1 && below(4) == 0;
  for (int j = 0; j < p->nobj; j++)
    if (p->obj[j].local || optable[group_ops[group_first[p->obj[j].group]]].addr[0]) p->mix = 0;
  p->tso = p->nthreads > 1 && below(4) == 0;
  static const int fdens[] = {2, 8, 64, 1 << 20};
  p->flush_den = fdens[below(4)];
  for (int t = 0; t < p->nthreads && p->tso; t++)
    for (int k = 0; k < p->nops[t]; k++) {
      const struct opinfo *oi = &optable[p->ops[t][k].op];
      if ((oi->cls == 6 || strstr(oi->opname, "clear")) && p->obj[0].local) p->tso = 0; // (the owner's by-name store reports through another path)
    }
  return 0;
}

// ------------------------------------------------------------------ plan text
static void hex(FILE *f, const unsigned char *b, int n) { for (int i = 0; i < n; i++) fprintf(f, "%02x", b[i]); }

static void print_plan(FILE *f, const Plan *p, int with_pre) {
  fprintf(f, "plan build=%d nthreads=%d nobj=%d strategy=%s p_den=%d pct_d=%d stall=%d,%d,%d sched_seed=%llu tso=%d,%d mix=%d cap=%d\n", p->build, p->nthreads,
          p->nobj, stratname[p->strategy], p->p_den, p->pct_d, p->stall_t, p->stall_k, p->stall_len, (unsigned long long)p->sched_seed, p->tso, p->flush_den, p->mix, p->cap);
  for (int j = 0; j < p->nobj; j++) {
    const struct opinfo *o = &optable[group_ops[group_first[p->obj[j].group]]];
    fprintf(f, "obj %d %s size=%d adjacent=%d local=%d init=", j, o->name, p->obj[j].size, p->obj[j].adjacent, p->obj[j].local);
    hex(f, p->obj[j].init, p->obj[j].size);
    fprintf(f, " # %s\n", o->type);
  }
  for (int t = 0; t < p->nthreads; t++)
    for (int k = 0; k < p->nops[t]; k++)
      fprintf(f, "op %d %s %d %ld %ld\n", t, optable[p->ops[t][k].op].name, p->ops[t][k].obj, p->ops[t][k].a, p->ops[t][k].b);
  if (with_pre) {
    for (int i = 0; i < p->npre; i++) fprintf(f, "pre %d %d %d\n", p->pre[i].x, p->pre[i].k, p->pre[i].y);
    for (int i = 0; i < p->nfl; i++) fprintf(f, "fl %d %d %d\n", p->fl[i].x, p->fl[i].k, p->fl[i].y);
  }
  fprintf(f, "end\n");
}

static int read_plan(FILE *f, Plan *p) {
  memset(p, 0, offsetof(Plan, pre));
  p->npre = 0;
  char line[512], s1[64];
  while (fgets(line, sizeof line, f)) {
    if (!strncmp(line, "plan ", 5)) {
      unsigned long long ss = 0;
      char st[32] = "";
      sscanf(line, "plan build=%d nthreads=%d nobj=%d strategy=%31s p_den=%d pct_d=%d stall=%d,%d,%d sched_seed=%llu tso=%d,%d mix=%d cap=%d", &p->build,
             &p->nthreads, &p->nobj, st, &p->p_den, &p->pct_d, &p->stall_t, &p->stall_k, &p->stall_len, &ss, &p->tso, &p->flush_den, &p->mix, &p->cap);
      p->sched_seed = ss;
      p->strategy = S_REPLAY;
      for (int i = 0; i < NSTRAT; i++) if (!strcmp(st, stratname[i])) p->strategy = i;
      if (p->nthreads < 1 || p->nthreads > MAXT || p->nobj < 1 || p->nobj > MAXOBJ) return -1;
    } else if (!strncmp(line, "obj ", 4)) {
      int j, size, adj, loc = 0;
      char hx[2 * MAXSTATE + 2] = "";
      if (sscanf(line, "obj %d %63s size=%d adjacent=%d local=%d init=%64s", &j, s1, &size, &adj, &loc, hx) < 6) return -1;
      int op = find_op(s1);
      if (op < 0 || j < 0 || j >= MAXOBJ || size > MAXSTATE) return -2;
      p->obj[j].group = optable[op].group;
      p->obj[j].size = size;
      p->obj[j].adjacent = adj;
      p->obj[j].local = loc;
      for (int i = 0; i < size; i++) { unsigned v = 0; sscanf(hx + 2 * i, "%2x", &v); p->obj[j].init[i] = v; }
    } else if (!strncmp(line, "op ", 3)) {
      int t, j;
      long a, b;
      if (sscanf(line, "op %d %63s %d %ld %ld", &t, s1, &j, &a, &b) != 5) return -1;
      int op = find_op(s1);
      if (op < 0 || t < 0 || t >= MAXT || p->nops[t] >= MAXOPS) return -2;
      POp *o = &p->ops[t][p->nops[t]++];
      o->op = op; o->obj = j; o->a = a; o->b = b;
    } else if (!strncmp(line, "pre ", 4)) {
      int x, k, y;
      if (sscanf(line, "pre %d %d %d", &x, &k, &y) != 3 || p->npre >= MAXPRE) return -1;
      p->pre[p->npre].x = x; p->pre[p->npre].k = k; p->pre[p->npre].y = y; p->npre++;
    } else if (!strncmp(line, "fl ", 3)) {
      int x, k, y;
      if (sscanf(line, "fl %d %d %d", &x, &k, &y) != 3 || p->nfl >= MAXFL) return -1;
      p->fl[p->nfl].x = x; p->fl[p->nfl].k = k; p->fl[p->nfl].y = y; p->nfl++;
    } else if (!strncmp(line, "end", 3))
      break;
  }
  return 0;
}

static void print_history(FILE *f, const Plan *p, const Result *r) {
  for (int t = 0; t < p->nthreads; t++)
    for (int k = 0; k < p->nops[t]; k++) {
      const POp *o = &p->ops[t][k];
      const OpRes *q = &r->r[t][k];
      if (q->done)
        fprintf(f, "  thread %d: %s(obj %d, a=%ld, b=%ld) -> %ld, b'=%ld   [invoked @%u, returned @%u]\n", t, optable[o->op].name, o->obj, o->a,
                o->b, q->ret, q->bout, q->inv, q->resp);
      else
        fprintf(f, "  thread %d: %s(obj %d, a=%ld, b=%ld) never returned\n", t, optable[o->op].name, o->obj, o->a, o->b);
    }
  if (r->cls != C_LIVELOCK && r->cls != C_CRASH)
    for (int j = 0; j < p->nobj; j++) {
      fprintf(f, "  object %d: initial ", j);
      hex(f, p->obj[j].init, p->obj[j].size);
      fprintf(f, " final ");
      hex(f, r->final[j], p->obj[j].size);
      fprintf(f, "\n");
    }
}

// ------------------------------------------------------------------ minimisation
static int mini_execs;
static Result mr;
static Plan cand, best;

static void to_replay(Plan *p, const Result *r) {
  p->strategy = S_REPLAY;
  p->npre = r->npre;
  memcpy(p->pre, r->pre, sizeof(Pre) * r->npre);
  p->nfl = r->nfl;
  memcpy(p->fl, r->fl, sizeof(Pre) * r->nfl);
}

// does candidate c still fail with class cls? tries its own schedule, then fresh seeded schedules
static int still_fails(Plan *c, int cls, int search) {
  mini_execs++;
  run_plan(c, &mr);
  if (mr.cls == cls) { to_replay(c, &mr); return 1; }
  uint64_t s0 = c->sched_seed;
  int strat0 = c->strategy, np0 = c->npre, nf0 = c->nfl;
  for (int i = 0; i < search; i++) {
    c->strategy = (int[]){S_TARGET, S_RANDOM, S_PCT, S_RANDOM}[i % 4];
    c->p_den = (int[]){2, 4, 2, 16}[i % 4];
    c->pct_d = 1 + i % 3;
    c->sched_seed = sm64(s0 + i);
    mini_execs++;
    run_plan(c, &mr);
    if (mr.cls == cls) { to_replay(c, &mr); return 1; }
  }
  c->strategy = strat0;
  c->npre = np0;
  c->nfl = nf0;
  c->sched_seed = s0;
  return 0;
}

static void drop_op(Plan *p, int t, int k) {
  memmove(&p->ops[t][k], &p->ops[t][k + 1], sizeof(POp) * (p->nops[t] - k - 1));
  p->nops[t]--;
}
static void drop_thread(Plan *p, int t) {
  for (int q = t; q + 1 < p->nthreads; q++) { p->nops[q] = p->nops[q + 1]; memcpy(p->ops[q], p->ops[q + 1], sizeof p->ops[q]); }
  p->nthreads--;
  p->nops[p->nthreads] = 0;
}

static void minimise(Plan *p, const Result *r0, int cls) {
  best = *p;
  to_replay(&best, r0);
  int search = cls == C_LIVELOCK ? 4 : 40;
  int progress = 1;
  while (progress) {
    progress = 0;
    for (int t = best.nthreads - 1; t >= 0 && best.nthreads > 1; t--) {
      if (t == 0 && best.obj[0].local) continue;
      cand = best;
      drop_thread(&cand, t);
      cand.npre = 0;
      cand.strategy = S_TARGET;
      if (still_fails(&cand, cls, search)) { best = cand; progress = 1; }
    }
    for (int t = 0; t < best.nthreads; t++)
      for (int k = best.nops[t] - 1; k >= 0; k--) {
        int total = 0;
        for (int q = 0; q < best.nthreads; q++) total += best.nops[q];
        if (total <= 1) break;
        cand = best;
        drop_op(&cand, t, k);
        if (cand.nops[t] == 0 && t == 0 && cand.obj[0].local) { /* the owner may have nothing to do but publish */ }
        else if (cand.nops[t] == 0 && cand.nthreads > 1) drop_thread(&cand, t);
        else if (cand.nops[t] == 0) continue;
        if (still_fails(&cand, cls, search)) { best = cand; progress = 1; if (t >= best.nthreads) break; }
      }
  }
  // drop unused objects
  for (int j = best.nobj - 1; j >= 0 && best.nobj > 1; j--) {
    int used = 0;
    for (int t = 0; t < best.nthreads; t++) for (int k = 0; k < best.nops[t]; k++) used |= best.ops[t][k].obj == j;
    if (used) continue;
    cand = best;
    for (int q = j; q + 1 < cand.nobj; q++) cand.obj[q] = cand.obj[q + 1];
    cand.nobj--;
    for (int t = 0; t < cand.nthreads; t++) for (int k = 0; k < cand.nops[t]; k++) if (cand.ops[t][k].obj > j) cand.ops[t][k].obj--;
    if (still_fails(&cand, cls, 0)) best = cand;
  }
  // simpler operands and initial values
  for (int t = 0; t < best.nthreads; t++)
    for (int k = 0; k < best.nops[t]; k++) {
      for (int v = 0; v < 2; v++) {
        cand = best;
        if (!strcmp(optable[cand.ops[t][k].op].opname, "tpush")) break; // the operand names the node
        if (cand.ops[t][k].a == (v ? 1 : 0) + 1) continue;
        cand.ops[t][k].a = (v ? 1 : 0) + 1;
        if (still_fails(&cand, cls, 0)) { best = cand; break; }
      }
      if (optable[best.ops[t][k].op].usesb && best.ops[t][k].b) {
        cand = best;
        cand.ops[t][k].b = 0;
        if (still_fails(&cand, cls, 0)) best = cand;
      }
    }
  for (int j = 0; j < best.nobj; j++) {
    const struct opinfo *o = &optable[group_ops[group_first[best.obj[j].group]]];
    int kind = tkind_of(o);
    if (kind == K_TICKET) continue;
    cand = best;
    memset(cand.obj[j].init, 0, sizeof cand.obj[j].init);
    if (still_fails(&cand, cls, 0)) best = cand;
  }
  // fewest context switches: ddmin over the preemption list
  if (best.strategy == S_REPLAY) {
    for (int chunk = best.npre / 2 > 0 ? best.npre / 2 : 1; chunk >= 1; chunk /= 2) {
      int prog = 1;
      while (prog) {
        prog = 0;
        for (int s = 0; s + chunk <= best.npre;) {
          cand = best;
          memmove(&cand.pre[s], &cand.pre[s + chunk], sizeof(Pre) * (cand.npre - s - chunk));
          cand.npre -= chunk;
          mini_execs++;
          run_plan(&cand, &mr);
          if (mr.cls == cls) { best = cand; prog = 1; }
          else s += chunk;
        }
      }
    }
    // canonical form: re-record the switches actually taken
    run_plan(&best, &mr);
    if (mr.cls == cls) to_replay(&best, &mr);
  }
  *p = best;
}

// ------------------------------------------------------------------ reporting of one failing run
static void identity(const Plan *p, const Result *r, char *out, size_t n) {
  // identity = class + the set of (type, op) involved on the offending object, storage/build ignored
  char names[MAXT * MAXOPS][40];
  int nn = 0;
  for (int t = 0; t < p->nthreads; t++)
    for (int k = 0; k < p->nops[t]; k++) {
      const struct opinfo *o = &optable[p->ops[t][k].op];
      if (r->badobj >= 0 && p->ops[t][k].obj != r->badobj) continue;
      char nm[40];
      snprintf(nm, sizeof nm, "%s:%s", o->type, o->opname);
      for (char *c = nm; *c; c++) if (*c == ' ') *c = '_';
      int dup = 0;
      for (int i = 0; i < nn; i++) dup |= !strcmp(names[i], nm);
      if (!dup) strcpy(names[nn++], nm);
    }
  for (int i = 0; i < nn; i++) for (int j = i + 1; j < nn; j++) if (strcmp(names[i], names[j]) > 0) { char t[40]; strcpy(t, names[i]); strcpy(names[i], names[j]); strcpy(names[j], t); }
  size_t o = snprintf(out, n, "class=%s threads=%d ops=", clsname[r->cls], p->nthreads);
  for (int i = 0; i < nn && o + 44 < n; i++) o += snprintf(out + o, n - o, "%s%s", i ? "," : "", names[i]);
}

static uint64_t plan_hash(const Plan *p, const Result *r) {
  uint64_t h = 0xcbf29ce484222325ull;
  hmix(&h, p->build);
  for (int j = 0; j < p->nobj; j++) hmix(&h, p->obj[j].group);
  for (int t = 0; t < p->nthreads; t++) {
    hmix(&h, 0xfff0 + t);
    for (int k = 0; k < p->nops[t]; k++) { hmix(&h, p->ops[t][k].op); hmix(&h, p->ops[t][k].obj); }
  }
  hmix(&h, r->loghash);
  return h;
}

static int report_failure(uint64_t seed, Plan *p, Result *r, int do_min) {
  static Plan p2;
  static Result r2;
  // gate 1: the same seed again gives the same class and the same event log
  p2 = *p;
  run_plan(&p2, &r2);
  if (r2.cls != r->cls || r2.loghash != r->loghash) {
    printf("N %llu nondeterministic: %s/%016llx vs %s/%016llx\n", (unsigned long long)seed, clsname[r->cls],
           (unsigned long long)r->loghash, clsname[r2.cls], (unsigned long long)r2.loghash);
    return 0;
  }
  int cls = r->cls;
  int ops0 = 0;
  for (int t = 0; t < p->nthreads; t++) ops0 += p->nops[t];
  mini_execs = 0;
  p2 = *p;
  if (do_min && p->strategy != S_STARVE) minimise(&p2, r, cls);
  else to_replay(&p2, r); // (a starvation schedule is hundreds of forced alternations: it is replayed as recorded)
  run_plan(&p2, &r2);
  if (r2.cls != cls) { // cannot happen; fall back to the unminimised plan
    p2 = *p;
    to_replay(&p2, r);
    run_plan(&p2, &r2);
  }
  char id[600];
  identity(&p2, &r2, id, sizeof id);
  printf("V %llu %s loghash=%016llx orig_ops=%d orig_threads=%d orig_switches=%ld min_execs=%d switches=%ld\n", (unsigned long long)seed, id,
         (unsigned long long)r2.loghash, ops0, p->nthreads, r->switches, mini_execs, r2.switches);
  print_plan(stdout, &p2, 1);
  printf("detail %s\n", r2.detail);
  print_history(stdout, &p2, &r2);
  printf("ENDV\n");
  fflush(stdout);
  return 1;
}

// ------------------------------------------------------------------ sequential differential
static int seqdiff(const char *exclout) {
  static Plan p;
  static Result r;
  FILE *ex = exclout ? fopen(exclout, "w") : NULL;
  long runs = 0, bad_ops = 0;
  for (int op = 0; op < noptable; op++) {
    if (excluded[op]) continue;
    const struct opinfo *o = &optable[op];
    int failed = 0;
    for (int build = 0; build < 2 && !failed; build++)
      for (int s = 0; s < 24 && !failed; s++) {
        rs = sm64(op * 1000003ull + build * 101 + s);
        memset(&p, 0, offsetof(Plan, pre));
        p.build = build;
        p.nthreads = 1;
        p.nobj = 1;
        p.obj[0].group = o->group;
        p.obj[0].size = o->objsize;
        p.obj[0].local = o->storage == 7;
        int domain = s % 4;
        gen_init(&p.obj[0], tkind_of(o), o->objsize, domain);
        p.nops[0] = 1;
        p.ops[0][0].op = op;
        p.ops[0][0].a = gen_value(domain, s);
        if (o->usesb) {
          long iv = 0;
          memcpy(&iv, p.obj[0].init, o->objsize > 8 ? 8 : o->objsize);
          p.ops[0][0].b = s % 3 == 0 ? gen_value(domain, s + 1) : iv; // patched below for typed values
          if (s % 3) {
            int kind = tkind_of(o);
            if (kind == K_FLOAT) { float f; memcpy(&f, p.obj[0].init, 4); p.ops[0][0].b = (long)f; }
            else if (kind == K_DOUBLE) { double d; memcpy(&d, p.obj[0].init, 8); p.ops[0][0].b = (long)d; }
            else if (kind == K_INT) {
              int sh = 64 - 8 * o->objsize;
              if (sh) p.ops[0][0].b = is_signed_type(o->type) ? (long)((uint64_t)iv << sh) >> sh : (long)(((uint64_t)iv << sh) >> sh);
            }
          }
        }
        p.strategy = S_SERIAL;
        p.sched_seed = 1;
        run_plan(&p, &r);
        runs++;
        if (r.cls) {
          failed = 1;
          bad_ops++;
          long ret, bout = p.ops[0][0].b;
          unsigned char st[MAXSTATE];
          memcpy(st, p.obj[0].init, MAXSTATE);
          HOp h = {o, p.ops[0][0].a, p.ops[0][0].b};
          hsize = o->objsize;
          apply_ref(&h, st, &ret, &bout);
          printf("Q %s type=%s op=%s storage=%d build=%d class=%s ", o->name, o->type, o->opname, o->storage, build, clsname[r.cls]);
          printf("init=");
          hex(stdout, p.obj[0].init, o->objsize);
          printf(" a=%ld b=%ld got: ret=%ld b'=%ld state=", p.ops[0][0].a, p.ops[0][0].b, r.r[0][0].ret, r.r[0][0].bout);
          hex(stdout, r.final[0], o->objsize);
          printf(" reference: ret=%ld b'=%ld state=", ret, bout);
          hex(stdout, st, o->objsize);
          printf("\n");
          print_plan(stdout, &p, 0);
          if (ex) fprintf(ex, "%s\n", o->name);
        }
      }
  }
  if (ex) fclose(ex);
  printf("S seq_runs=%ld seq_ops=%d seq_bad_ops=%ld\n", runs, noptable, bad_ops);
  return 0;
}

int main(int argc, char **argv) {
  setvbuf(stdout, NULL, _IOFBF, 1 << 16);
  static char altstack[65536];
  stack_t ss = {.ss_sp = altstack, .ss_size = sizeof altstack};
  sigaltstack(&ss, NULL);
  struct sigaction sa = {0};
  sa.sa_handler = on_crash;
  sa.sa_flags = SA_ONSTACK | SA_NODEFER;
  sigaction(SIGSEGV, &sa, NULL);
  sigaction(SIGBUS, &sa, NULL);
  sigaction(SIGFPE, &sa, NULL);
  sigaction(SIGILL, &sa, NULL);
  init_tables();
  if (getenv("ISCHED_MAXOPS")) maxops_env = atoi(getenv("ISCHED_MAXOPS"));
  if (getenv("ISCHED_MAXT")) maxt_env = atoi(getenv("ISCHED_MAXT"));
  static Plan p;
  static Result r;
  if (argc < 2) return 2;
  for (int i = 2; i < argc; i++) if (!strcmp(argv[i], "-v")) verbose = 1;
  if (!strcmp(argv[1], "list")) {
    for (int i = 0; i < noptable; i++)
      printf("%s type=%s op=%s size=%d storage=%d cls=%d group=%d%s\n", optable[i].name, optable[i].type, optable[i].opname, optable[i].objsize,
             optable[i].storage, optable[i].cls, optable[i].group, excluded[i] ? " excluded" : "");
    return 0;
  }
  if (!strcmp(argv[1], "seqdiff")) return seqdiff(argc > 2 ? argv[2] : NULL);
  if (!strcmp(argv[1], "replay")) {
    FILE *f = fopen(argv[2], "r");
    int e;
    if (!f || (e = read_plan(f, &p))) { fprintf(stderr, "bad plan file (%d)\n", f ? e : 0); return 2; }
    run_plan(&p, &r);
    char id[600];
    identity(&p, &r, id, sizeof id);
    printf("R %s loghash=%016llx steps=%ld switches=%ld\n", id, (unsigned long long)r.loghash, r.steps, r.switches);
    printf("detail %s\n", r.detail);
    print_history(stdout, &p, &r);
    return r.cls ? 1 : 0;
  }
  if (!strcmp(argv[1], "run")) {
    uint64_t seed = strtoull(argv[2], 0, 0);
    if (gen(&p, seed)) { printf("cannot generate\n"); return 2; }
    print_plan(stdout, &p, 0);
    run_plan(&p, &r);
    printf("R class=%s loghash=%016llx steps=%ld switches=%ld windows=%ld\n", clsname[r.cls], (unsigned long long)r.loghash, r.steps, r.switches,
           r.conflict_windows);
    print_history(stdout, &p, &r);
    if (r.cls) report_failure(seed, &p, &r, 1);
    return r.cls ? 1 : 0;
  }
  if (!strcmp(argv[1], "batch")) {
    uint64_t master = strtoull(argv[2], 0, 0);
    long first = atol(argv[3]), count = atol(argv[4]);
    long runs = 0, viol = 0, steps = 0, switches = 0, windows = 0, nontriv = 0, msteps = 0, casfail = 0, drained = 0, stallf = 0, pctf = 0,
         ops = 0, minimised = 0, sampled_distinct = 0, tso_plans = 0, mix_plans = 0, sbb = 0, sbf = 0, sbd = 0, sbw = 0, sbfw = 0;
    long by_strat[NSTRAT] = {0}, by_threads[MAXT + 1] = {0}, by_cls[10] = {0}, by_storage[10] = {0}, by_build[2] = {0}, by_viol[5] = {0};
    for (long i = first; i < first + count; i++) {
      uint64_t seed = mixseed(master, i);
      if (gen(&p, seed)) continue;
      run_plan(&p, &r);
      runs++;
      steps += r.steps; switches += r.switches; windows += r.conflict_windows; msteps += r.msteps;
      casfail += r.cas_fail_writeback; drained += r.drained; stallf += r.stall_fired; pctf += r.pct_fired;
      by_strat[p.strategy]++; by_threads[p.nthreads]++; by_build[p.build]++;
      mix_plans += p.mix; tso_plans += p.tso; sbb += r.sb_buffered; sbf += r.sb_flushed; sbd += r.sb_forced; sbw += r.sb_windows; sbfw += r.sb_forwarded;
      for (int t = 0; t < p.nthreads; t++)
        for (int k = 0; k < p.nops[t]; k++) { ops++; by_cls[optable[p.ops[t][k].op].cls]++; by_storage[optable[p.ops[t][k].op].storage]++; }
      if (r.conflict_windows > 0) {
        nontriv++;
        uint64_t h = plan_hash(&p, &r);
        if (h % 64 == 0) { printf("H %016llx\n", (unsigned long long)h); sampled_distinct++; }
      }
      if (i - first < 2) { printf("P seed=%llu\n", (unsigned long long)seed); print_plan(stdout, &p, 0); printf("ENDP\n"); }
      if (r.cls) {
        viol++;
        by_viol[r.cls]++;
        if (minimised < 3) minimised += report_failure(seed, &p, &r, 1);
        if (viol >= 200) { i++; printf("T stopped_early_after=%ld\n", i - first); break; } // plenty: do not burn hours on a broken tree
      }
    }
    printf("S runs=%ld ops=%ld viol=%ld steps=%ld switches=%ld conflict_windows=%ld nontrivial=%ld modelled_rmw_microsteps=%ld "
           "cas_fail_writebacks=%ld drained=%ld stalls_fired=%ld pct_changepoints_fired=%ld",
           runs, ops, viol, steps, switches, windows, nontriv, msteps, casfail, drained, stallf, pctf);
    for (int s = 0; s < NSTRAT; s++) printf(" strat_%s=%ld", stratname[s], by_strat[s]);
    for (int t = 1; t <= MAXT; t++) printf(" threads_%d=%ld", t, by_threads[t]);
    static const char *cn[] = {"compound", "incdec", "fetch", "xchg", "cas", "load", "store", "flag", "algo", "storm"};
    for (int c = 0; c < 10; c++) printf(" opclass_%s=%ld", cn[c], by_cls[c]);
    static const char *sn[] = {"ptr", "member", "global", "gmember", "garray", "algo", "nested", "automatic", "tls", "tlsmember"};
    for (int c = 0; c < 10; c++) printf(" storage_%s=%ld", sn[c], by_storage[c]);
    printf(" build_default=%ld build_pic=%ld", by_build[0], by_build[1]);
    printf(" mixed_build_plans=%ld", mix_plans);
    printf(" tso_plans=%ld tso_stores_buffered=%ld tso_flushed_by_scheduler=%ld tso_drained_by_barrier=%ld tso_loads_overtaking_own_store=%ld tso_loads_forwarded_from_own_buffer=%ld", tso_plans, sbb, sbf, sbd, sbw, sbfw);
    for (int c = 1; c < 5; c++) printf(" viol_%s=%ld", clsname[c], by_viol[c]);
    printf("\n");
    return 0;
  }
  return 2;
}

// gcc's compound assignment on _Atomic float/double calls this after its CAS loop (libatomic);
// floating-point exception flags play no role here
__attribute__((weak)) void __atomic_feraiseexcept(int e) { (void)e; }
