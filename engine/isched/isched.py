#!/usr/bin/env python3
# C16 -- atomic read-modify-write operations are indivisible.
# Builds chibicc from /repo's working tree, lets it compile the operation file, rewrites the emitted
# assembly so that a seeded scheduler owns every interleaving (isched.c), and checks every history for
# linearizability against the same source compiled by gcc.
import concurrent.futures as cf
import json, os, re, subprocess, sys, time

sys.path.insert(0, os.path.join(os.path.dirname(os.path.abspath(__file__)), "..", "common"))
from vcommon import *

PROP = "C16"
HERE = os.path.dirname(os.path.abspath(__file__))


def sh(cmd, **kw):
    return subprocess.run(cmd, stdout=subprocess.PIPE, stderr=subprocess.STDOUT, **kw)


def build(sdir):
    """-> (isched_exe, build_stats, compile_problem or None)"""
    src = os.path.join(sdir, "src")
    cc = build_chibicc(src)
    w = os.path.join(sdir, "w")
    os.makedirs(w, exist_ok=True)
    # does the compiler under test accept read-modify-write on an _Atomic long double at all? (the pinned one stops with an
    # internal error; if a later one implements it, with a lock say, the operations are generated and checked like the others)
    with open(os.path.join(w, "ald_probe.c"), "w") as f:
        f.write("_Atomic long double x; long double f(long double v) { x += v; ++x; return x; }\n")
    ald = sh([cc, "-S", "-I" + os.path.join(src, "include"), os.path.join(w, "ald_probe.c"), "-o", os.path.join(w, "ald_probe.s")]).returncode == 0
    with open(os.path.join(w, "pq_probe.c"), "w") as f:
        f.write("long * _Atomic p; long *f(void) { p++; p += 2; return p; }\n")
    pq = sh([cc, "-S", "-I" + os.path.join(src, "include"), os.path.join(w, "pq_probe.c"), "-o", os.path.join(w, "pq_probe.s")]).returncode == 0
    r = sh([sys.executable, os.path.join(HERE, "genops.py"), w] + (["--ald"] if ald else []) + (["--ptrqual"] if pq else []))
    if r.returncode:
        raise BuildError("genops failed: " + r.stdout.decode())
    stats = {"atomic_long_double_accepted_by_the_compiler": int(ald), "atomic_after_star_spelling_accepted_by_the_compiler": int(pq)}
    for tag, flags, base in (("cc", [], 0), ("pic", ["-fPIC"], 1000000)):
        r = sh([cc, "-S", "-I" + os.path.join(src, "include"), "-DPFX=%s_" % tag] + flags + [os.path.join(w, "ops.c"), "-o", os.path.join(w, "ops_%s.s" % tag)])
        if r.returncode:
            return None, stats, "the chibicc under test does not compile the operation file (%s build):\n%s" % (tag, r.stdout.decode(errors="replace")[-1500:])
        r = sh([sys.executable, os.path.join(HERE, "rewrite.py"), os.path.join(w, "ops_%s.s" % tag), os.path.join(w, "ops_%s_rw.s" % tag),
                os.path.join(w, "sites_%s.c" % tag), str(base), tag])
        if r.returncode:
            raise BuildError("rewrite failed: " + r.stdout.decode())
        for kv in r.stdout.decode().split():
            k, _, v = kv.partition("=")
            stats[tag + "_" + k] = int(v)
        r = sh(["gcc", "-c", os.path.join(w, "ops_%s_rw.s" % tag), "-o", os.path.join(w, "ops_%s.o" % tag)])
        if r.returncode:
            return None, stats, "the rewritten assembly of the %s build does not assemble:\n%s" % (tag, r.stdout.decode(errors="replace")[-1500:])
        r = sh(["gcc", "-c", os.path.join(w, "sites_%s.c" % tag), "-o", os.path.join(w, "sites_%s.o" % tag)])
        if r.returncode:
            raise BuildError("sites: " + r.stdout.decode())
    r = sh(["gcc", "-O1", "-fwrapv", "-w", "-DREF", "-DPFX=ref_", "-c", os.path.join(w, "ops.c"), "-o", os.path.join(w, "ops_ref.o")])
    if r.returncode:
        raise BuildError("gcc does not compile the operation file: " + r.stdout.decode()[-1500:])
    r = sh(["gcc", "-O1", "-I" + HERE, "-c", os.path.join(w, "optable.c"), "-o", os.path.join(w, "optable.o")])
    if r.returncode:
        raise BuildError("optable: " + r.stdout.decode()[-1500:])
    objs = []
    for f, flags in (("isched.c", ["-O2", "-g", "-I" + HERE]), ("yield.S", [])):
        o = os.path.join(BUILD, f.replace(".c", ".o").replace(".S", ".o"))
        if not os.path.exists(o) or os.path.getmtime(o) < os.path.getmtime(os.path.join(HERE, f)):
            os.makedirs(BUILD, exist_ok=True)
            r = sh(["gcc"] + flags + ["-c", os.path.join(HERE, f), "-o", o])
            if r.returncode:
                raise BuildError(f + ": " + r.stdout.decode()[-1500:])
        objs.append(o)
    exe = os.path.join(w, "isched")
    r = sh(["gcc", "-no-pie", "-Wl,-z,noexecstack"] + objs + [os.path.join(w, x) for x in
           ("optable.o", "sites_cc.o", "sites_pic.o", "ops_cc.o", "ops_pic.o", "ops_ref.o")] + ["-o", exe])
    if r.returncode:
        return None, stats, "the emitted code does not link with the harness:\n" + r.stdout.decode(errors="replace")[-1500:]
    return exe, stats, None


# ------------------------------------------------------------------ output parsing
def parse_blocks(out):
    """yields ('Q'|'V'|'S'|'H'|'P'|'N', header, body_lines)"""
    lines = out.splitlines()
    i = 0
    while i < len(lines):
        l = lines[i]
        if l.startswith("V "):
            body = []
            i += 1
            while i < len(lines) and lines[i] != "ENDV":
                body.append(lines[i])
                i += 1
            yield "V", l, body
        elif l.startswith("P "):
            body = []
            i += 1
            while i < len(lines) and lines[i] != "ENDP":
                body.append(lines[i])
                i += 1
            yield "P", l, body
        elif l.startswith("Q "):
            body = []
            while i + 1 < len(lines) and not lines[i + 1].startswith(("Q ", "S ")):
                i += 1
                body.append(lines[i])
            yield "Q", l, body
        elif l[:2] in ("S ", "H ", "N "):
            yield l[0], l, []
        i += 1


def plan_from_body(body):
    plan = []
    for l in body:
        plan.append(l)
        if l == "end":
            break
    return "\n".join(plan) + "\n"


def run_replay(exe, sdir, plantext, excl=None):
    path = os.path.join(sdir, "replay.%s.plan" % sha(plantext))
    with open(path, "w") as f:
        f.write(plantext)
    p = subprocess.run([exe, "replay", path], stdout=subprocess.PIPE, stderr=subprocess.PIPE)
    out = p.stdout.decode(errors="replace")
    ident, lh = "", ""
    for l in out.splitlines():
        if l.startswith("R "):
            m = re.match(r"R (.*) loghash=(\w+) steps", l)
            if m:
                ident, lh = m.group(1), m.group(2)
    return p.returncode, ident, lh, out


def seqdiff(exe, sdir, rep, stats):
    excl = os.path.join(sdir, "exclude.txt")
    p = subprocess.run([exe, "seqdiff", excl], stdout=subprocess.PIPE, stderr=subprocess.PIPE)
    out = p.stdout.decode(errors="replace")
    if p.returncode != 0 or "\nS seq_runs" not in "\n" + out:
        rep.harness_error("seqdiff died rc=%d: %s" % (p.returncode, p.stderr.decode(errors="replace")[-500:]))
        return excl, []
    groups = {}
    for kind, head, body in parse_blocks(out):
        if kind == "S":
            for kv in head[2:].split():
                k, _, v = kv.partition("=")
                stats[k] = int(v)
        if kind == "Q":
            m = re.match(r"Q (\S+) type=(.*) op=(\S+) storage=(\d) build=(\d) class=(\S+) (.*)", head)
            name, T, op, st, bld, cls, rest = m.groups()
            key = (T, op)
            groups.setdefault(key, {"names": [], "first": (name, rest, plan_from_body(body)), "cls": cls})
            groups[key]["names"].append(name)
    bad = []
    for (T, op), g in sorted(groups.items()):
        name, rest, plantext = g["first"]
        cls = g["cls"]
        # the identity of a sequential difference is the (type, operation) pair: whether wrong code crashes or
        # returns garbage can depend on addresses, so the class is reported but is not part of the identity
        ident = "seq type=%s op=%s" % (T.replace(" ", "_"), op)
        plan = {"engine": "isched", "property": PROP, "class": cls, "kind": "sequential", "identity": ident,
                "variants": g["names"], "plan": plantext, "observed_vs_reference": rest}
        rp = save_replay(PROP, int(sha(ident), 16), plan)
        rep.violation(ident, rp, "single thread, one operation (%s): %s\n  %s\n  variants affected: %s" % (cls, name, rest, " ".join(g["names"])))
        bad += g["names"]
    return excl, bad


def batch_chunk(exe, env, master, first, count):
    p = subprocess.run([exe, "batch", str(master), str(first), str(count)], stdout=subprocess.PIPE, stderr=subprocess.PIPE, env=env)
    return p.returncode, p.stdout.decode(errors="replace"), p.stderr.decode(errors="replace")[-400:]


def concurrent(exe, sdir, excl, master, total, chunk, rep, stats, samples, distinct, maxops=None):
    env = dict(os.environ)
    env["ISCHED_EXCLUDE"] = excl
    if maxops:
        env["ISCHED_MAXOPS"] = str(maxops)
    with cf.ThreadPoolExecutor(NCPU) as ex:
        futs = []
        first = 0
        while first < total:
            n = min(chunk, total - first)
            futs.append((first, ex.submit(batch_chunk, exe, env, master, first, n)))
            first += n
        for first, fut in futs:
            if stats.get("viol", 0) >= 1000:   # a thoroughly broken tree: enough evidence, skip the rest
                if fut.cancel():
                    stats["chunks_skipped_after_1000_violations"] = stats.get("chunks_skipped_after_1000_violations", 0) + 1
                    continue
            rc, out, err = fut.result()
            got_s = False
            for kind, head, body in parse_blocks(out):
                if kind == "S":
                    got_s = True
                    for kv in head[2:].split():
                        k, _, v = kv.partition("=")
                        stats[k] = stats.get(k, 0) + int(v)
                elif kind == "H":
                    distinct.add(int(head[2:], 16))
                elif kind == "P" and len(samples) < 3:
                    samples.append({"seed": int(head.split("=")[1]), "plan": body})
                elif kind == "N":
                    rep.harness_error("concurrent: " + head)
                elif kind == "V":
                    m = re.match(r"V (\d+) (class=\S+ threads=\d+ ops=\S*) loghash=(\w+) (.*)", head)
                    if not m:
                        rep.harness_error("unparsable V line: " + head)
                        continue
                    seed, ident, lh, rest = int(m.group(1)), m.group(2), m.group(3), m.group(4)
                    plantext = plan_from_body(body)
                    # gate 2: the minimised plan replays in a fresh process: same identity, same event log
                    rc2, id2, lh2, out2 = run_replay(exe, sdir, plantext)
                    if id2 != ident or lh2 != lh:
                        rep.harness_error("seed %d: minimised plan does not replay (%s/%s vs %s/%s)" % (seed, id2, lh2, ident, lh))
                        continue
                    plan = {"engine": "isched", "property": PROP, "kind": "concurrent", "seed": seed, "identity": ident, "loghash": lh,
                            "search": rest, "plan": plantext, "history": body[body.index("end") + 1:] if "end" in body else []}
                    rp = save_replay(PROP, seed, plan)
                    rep.violation(ident + " id=%s" % sha(plantext)[:6], rp, "seed %d (%s)\n%s" % (seed, rest, "\n".join(body)))
            if not got_s:
                rep.harness_error("batch chunk first=%d died rc=%d %s" % (first, rc, err))


def determinism(exe, excl, master, n, rep, stats):
    env = dict(os.environ)
    env["ISCHED_EXCLUDE"] = excl

    def one(i):
        s = str(mix(master ^ 0xDE7, i))
        a = subprocess.run([exe, "run", s], stdout=subprocess.PIPE, stderr=subprocess.DEVNULL, env=env).stdout
        b = subprocess.run([exe, "run", s], stdout=subprocess.PIPE, stderr=subprocess.DEVNULL, env=env).stdout
        return a == b and b"loghash=" in a
    with cf.ThreadPoolExecutor(NCPU) as ex:
        res = list(ex.map(one, range(n)))
    stats["determinism_pairs"] = n
    stats["determinism_mismatches"] = res.count(False)
    if not all(res):
        rep.harness_error("%d of %d seeds did not repeat exactly (plans, histories and the hash over every (thread, site) step compared)" % (res.count(False), n))


def main(argv):
    tier = tier_from_args(argv)
    t0 = now()
    master = master_seed()
    rep = Reporter(PROP)
    sdir = scratch("verif-c16")
    try:
        exe, bstats, problem = build(sdir)
    except BuildError as e:
        print("HARNESS-ERROR property=%s cannot build: %s" % (PROP, e))
        return 2
    if "--build-only" in argv:
        import shutil
        dst = argv[argv.index("--build-only") + 1]
        shutil.copytree(os.path.join(sdir, "w"), dst, dirs_exist_ok=True)
        print(problem or "built " + dst)
        return 0
    if problem:
        # C11 atomics that gcc accepts but the chibicc under test rejects / miscompiles into unassemblable code
        rep.clean_replays()
        rp = save_replay(PROP, 0, {"engine": "isched", "property": PROP, "class": "does-not-compile", "text": problem})
        rep.violation("class=does-not-compile", rp, problem)
        rc = rep.finish()
        write_evidence(PROP, tier, master, "exploration", {"evaluations": 1, "distinct_nontrivial": 0, "rule": "build failed", "samples": [problem[:300]]},
                       [], now() - t0, 1)
        return rc

    if "--replay" in argv:
        path = argv[argv.index("--replay") + 1]
        plan = json.load(open(path))
        rc, ident, lh, out = run_replay(exe, sdir, plan["plan"])
        print(out)
        if rc:
            print("VIOLATION property=%s replay=%s" % (PROP, path))
        return 1 if rc else 0

    rep.clean_replays()
    stats = dict(bstats)
    excl, bad = seqdiff(exe, sdir, rep, stats)
    samples, distinct = [], set()
    if tier == "quick":
        total, chunk, det, deep = 6400000, 50000, 300, 160000
    else:
        total, chunk, det, deep = 240000000, 500000, 1500, 8000000
    concurrent(exe, sdir, excl, master, total, chunk, rep, stats, samples, distinct)
    # longer threads (up to 8 ops each): deeper histories, fewer of them
    concurrent(exe, sdir, excl, master ^ 0xDEE9, deep, max(2000, chunk // 10), rep, stats, samples, distinct, maxops=8)
    determinism(exe, excl, master, det, rep, stats)

    wall = now() - t0
    runs = stats.get("runs", 0) + stats.get("seq_runs", 0)
    coverage = {
        "evaluations": runs,
        "distinct_nontrivial": len(distinct),
        "rule": "one evaluation = one simulated execution: 1..4 coroutine threads x 1..8 atomic operations on 1..3 objects, every instruction with a "
                "shared-memory operand of the code chibicc emitted being a scheduling point decided by the seed; the history is checked for "
                "linearizability against the same source compiled by gcc. Non-trivial = a thread was preempted inside an operation and another thread "
                "then touched the same object before it resumed (a conflict window was opened). Distinct = distinct hash of (operations, complete "
                "interleaving); to bound memory only the 1/64 subspace of hashes divisible by 64 is counted exactly, so the number is a lower bound "
                "(the true count is about 64 times larger). Sequential differential runs (one thread, one op, every variant x 24 operand samples x 2 builds) are included in evaluations.",
        "samples": samples,
        "nontrivial_runs": stats.get("nontrivial", 0),
        "runs_per_hour": int(runs / wall * 3600) if wall > 0 else 0,
        "simulated_time": "not applicable: the emitted sequences have no timers; progress is counted in instruction steps (%d executed)" % stats.get("steps", 0),
        "steps": stats.get("steps", 0),
        "context_switches": stats.get("switches", 0),
        "fault_kinds_fired": {
            "preemptions(context switches decided by the seed)": stats.get("switches", 0),
            "conflict_windows_opened": stats.get("conflict_windows", 0),
            "stalls_fired": stats.get("stalls_fired", 0),
            "pct_priority_change_points_fired": stats.get("pct_changepoints_fired", 0),
            "runs_that_needed_the_fair_drain_phase": stats.get("drained", 0),
            "modelled_nonlocked_rmw_microsteps": stats.get("modelled_rmw_microsteps", 0),
        },
        "rare_branch_probes": {
            "compare_exchange_failed_and_wrote_back_expected": stats.get("cas_fail_writebacks", 0),
            "lock_prefixed_sites_in_emitted_code": stats.get("cc_locked", 0) + stats.get("pic_locked", 0),
            "xchg_sites_in_emitted_code": stats.get("cc_xchg", 0) + stats.get("pic_xchg", 0),
            "nonlocked_rmw_sites_in_emitted_code(modelled as load;yield;store)": stats.get("cc_modelled_nonlocked_rmw", 0) + stats.get("pic_modelled_nonlocked_rmw", 0),
            "nonlocked_rmw_sites_outside_the_model": stats.get("cc_unmodelled_nonlocked_rmw", 0) + stats.get("pic_unmodelled_nonlocked_rmw", 0),
        },
        "by_strategy": dict((k[6:], v) for k, v in stats.items() if k.startswith("strat_")),
        "by_threads": dict((k[8:], v) for k, v in stats.items() if k.startswith("threads_")),
        "by_op_class": dict((k[8:], v) for k, v in stats.items() if k.startswith("opclass_")),
        "by_storage": dict((k[8:], v) for k, v in stats.items() if k.startswith("storage_")),
        "by_build": {"default": stats.get("build_default", 0), "fPIC": stats.get("build_pic", 0)},
        "op_variants": stats.get("seq_ops", 0),
        "op_variants_excluded_from_concurrent_runs_because_they_fail_alone": sorted(bad),
        "components": {"real": ["every instruction of the atomic operations: emitted by the chibicc built from the working tree, executed on the real CPU",
                                "include/stdatomic.h from the working tree", "lock cmpxchg / xchg execute as the single steps the hardware guarantees"],
                       "simulated": ["threads (coroutines in one OS thread)", "the scheduler", "sequentially consistent memory at instruction granularity",
                                     "non-locked read-modify-write instructions are split into load / store micro-steps (CPU model)"],
                       "stub": ["the harness calling the operations is gcc-compiled and is never preempted between its own instructions"]},
        "stats": stats,
        "exhaustive": False,
    }
    rc = rep.finish()
    write_evidence(PROP, tier, master, "exploration", coverage,
                   ["memory model: sequential consistency per instruction; x86-TSO store buffering of plain stores is not modelled (locked instructions are SC on x86)",
                    "the sequential specification is gcc's compilation of the same operation source (gcc -O1 -fwrapv with gcc's <stdatomic.h>)",
                    "objects are naturally aligned (no split locks); widths 1, 2, 4, 8 and two 16-byte lock structures",
                    "automatic-storage atomics: one object per run, owned by an emitted function that operates on it by name while other threads use its address",
                    "sampled, not exhaustive: a clean batch is evidence, not proof"],
                   wall, len(rep.new))
    print("C16 %s: %d simulated runs (%d sequential), %d with conflict windows, %d distinct (sampled subspace), %d violation(s), %.1fs" % (
        tier, runs, stats.get("seq_runs", 0), stats.get("nontrivial", 0), len(distinct), len(rep.new), wall))
    return rc


if __name__ == "__main__":
    sys.exit(main(sys.argv[1:]))
