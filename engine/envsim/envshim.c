// libenvsim.so -- LD_PRELOAD seam that puts "the process" a compiler run happens in under the
// simulator's control: clock, heap layout and heap contents, pid, temp-file names.
// Active only when ENVSIM_SEED is set and the program is chibicc (as/ld keep their own malloc).
//   ENVSIM_SEED   u64   allocator seed: arena base offset, padding between blocks, junk byte
//   ENVSIM_EPOCH  s64   simulated time() at process start;  ENVSIM_TICK  seconds added per clock read
//   ENVSIM_PID    int   getpid()
//   ENVSIM_TMPTAG 6 chars used for mkstemp names (a counter replaces the tail)
//   ENVSIM_STATS  path  one line of counters appended at exit
#define _GNU_SOURCE
#include <dlfcn.h>
#include <errno.h>
#include <fcntl.h>
#include <stdarg.h>
#include <stdint.h>
#include <stdio.h>
#include <stdlib.h>
#include <string.h>
#include <sys/mman.h>
#include <sys/time.h>
#include <time.h>
#include <unistd.h>

extern void *__libc_malloc(size_t);
extern void *__libc_calloc(size_t, size_t);
extern void *__libc_realloc(void *, size_t);
extern void __libc_free(void *);
extern void *__libc_memalign(size_t, size_t);
extern char *program_invocation_short_name;

static int state; // 0 undecided, 1 active, 2 inactive
static char *arena;
static size_t cap = (size_t)24 << 30, off;
static uint64_t rs;
static unsigned char junk;
static long n_malloc, n_calloc, n_realloc, n_free, n_time, n_moved, n_mkstemp;
static int64_t epoch, tick;
static int have_clock, have_pid, fake_pid;

extern char **environ;
static char *env_get(const char *n) { // the shim's own reader: env_get() below belongs to the simulated environment
  size_t l = strlen(n);
  for (char **e = environ; e && *e; e++)
    if (!strncmp(*e, n, l) && (*e)[l] == '=') return *e + l + 1;
  return NULL;
}

static uint64_t rnd(void) {
  uint64_t z = (rs += 0x9E3779B97F4A7C15ull);
  z = (z ^ (z >> 30)) * 0xBF58476D1CE4E5B9ull;
  z = (z ^ (z >> 27)) * 0x94D049BB133111EBull;
  return z ^ (z >> 31);
}

static long n_getenv_stat(void);
static void write_stats(void) {
  const char *p = env_get("ENVSIM_STATS");
  if (!p || state != 1) return;
  char buf[256];
  int n = snprintf(buf, sizeof buf, "malloc=%ld calloc=%ld realloc=%ld moved=%ld free=%ld clock_reads=%ld mkstemp=%ld getenv_answered=%ld junk=%u\n", n_malloc,
                   n_calloc, n_realloc, n_moved, n_free, n_time, n_mkstemp, n_getenv_stat(), junk);
  int fd = open(p, O_WRONLY | O_APPEND | O_CREAT, 0644);
  if (fd >= 0) {
    if (write(fd, buf, n) < 0) {}
    close(fd);
  }
}

// The stack below the point where the simulator wakes up is filled with the same seeded junk as fresh heap memory, so an
// automatic variable that is read before it is written does not find the zeroes a fresh process happens to provide.
static void __attribute__((noinline)) dirty_stack(unsigned char fill) {
  volatile unsigned char buf[1 << 20];
  memset((void *)buf, fill, sizeof buf);
  __asm__ volatile("" ::"r"(buf) : "memory");
}

static void decide(void) {
  const char *s = env_get("ENVSIM_SEED");
  const char *nm = program_invocation_short_name;
  if (!s || !nm || !strstr(nm, "chibicc")) {
    state = 2;
    return;
  }
  rs = strtoull(s, 0, 0);
  arena = mmap(NULL, cap, PROT_READ | PROT_WRITE, MAP_PRIVATE | MAP_ANONYMOUS | MAP_NORESERVE, -1, 0);
  if (arena == MAP_FAILED) {
    state = 2;
    return;
  }
  off = (rnd() % (1 << 20)) & ~(size_t)15; // heap base moves by up to 1 MiB
  junk = (unsigned char)(rnd() | 1);
  const char *e = env_get("ENVSIM_EPOCH");
  if (e) {
    have_clock = 1;
    epoch = strtoll(e, 0, 0);
    tick = env_get("ENVSIM_TICK") ? strtoll(env_get("ENVSIM_TICK"), 0, 0) : 0;
  }
  if (env_get("ENVSIM_PID")) {
    have_pid = 1;
    fake_pid = atoi(env_get("ENVSIM_PID"));
  }
  state = 1;
  dirty_stack(junk);
  atexit(write_stats);
}

static inline int in_arena(void *p) { return arena && (char *)p >= arena && (char *)p < arena + cap; }

static void *alloc(size_t n, size_t align) {
  if (align < 16) align = 16;
  size_t pad = (rnd() % 8) * 16; // blocks never sit at the same distance from each other
  size_t start = off + pad + 16;
  start = (start + align - 1) & ~(align - 1);
  size_t sz = (n + 15) & ~(size_t)15;
  if (start + sz + 16 > cap) {
    errno = ENOMEM;
    return NULL;
  }
  char *p = arena + start;
  ((size_t *)p)[-1] = n;
  memset(arena + off, junk, start - 8 - off > 0 ? start - 8 - off : 0);
  memset(p, junk, sz); // fresh memory is never zero
  off = start + sz;
  return p;
}

void *malloc(size_t n) {
  if (!state) decide();
  if (state != 1) return __libc_malloc(n);
  n_malloc++;
  return alloc(n, 16);
}

void *calloc(size_t a, size_t b) {
  if (!state) decide();
  if (state != 1) return __libc_calloc(a, b);
  n_calloc++;
  size_t n = a * b;
  if (b && n / b != a) {
    errno = ENOMEM;
    return NULL;
  }
  char *p = alloc(n, 16);
  if (p) memset(p, 0, n); // exactly the requested bytes; the rounding tail stays junk
  return p;
}

void free(void *p) {
  if (!p) return;
  if (!in_arena(p)) {
    __libc_free(p);
    return;
  }
  n_free++;
  size_t n = ((size_t *)p)[-1];
  memset(p, (unsigned char)~junk, n); // poisoned and never handed out again
}

void *realloc(void *p, size_t n) {
  if (!state) decide();
  if (p && !in_arena(p)) return __libc_realloc(p, n);
  if (state != 1) return __libc_realloc(p, n);
  n_realloc++;
  char *q = alloc(n, 16);
  if (!q) return NULL;
  if (p) {
    size_t old = ((size_t *)p)[-1];
    memcpy(q, p, old < n ? old : n);
    n_moved++;
    memset(p, (unsigned char)~junk, old); // realloc always moves; the old block is poisoned
  }
  return q;
}

void *memalign(size_t al, size_t n) {
  if (!state) decide();
  if (state != 1) return __libc_memalign(al, n);
  return alloc(n, al);
}
void *aligned_alloc(size_t al, size_t n) { return memalign(al, n); }
int posix_memalign(void **out, size_t al, size_t n) {
  void *p = memalign(al, n);
  if (!p) return ENOMEM;
  *out = p;
  return 0;
}
size_t malloc_usable_size(void *p) { return p ? (in_arena(p) ? ((size_t *)p)[-1] : 0) : 0; }

// ------------------------------------------------------------------ clock, pid, temp names
static int64_t now(void) {
  n_time++;
  int64_t t = epoch;
  epoch += tick;
  return t;
}

time_t time(time_t *t) {
  if (!state) decide();
  if (state != 1 || !have_clock) {
    struct timespec ts;
    static int (*real)(clockid_t, struct timespec *);
    if (!real) real = dlsym(RTLD_NEXT, "clock_gettime");
    real(CLOCK_REALTIME, &ts);
    if (t) *t = ts.tv_sec;
    return ts.tv_sec;
  }
  time_t v = (time_t)now();
  if (t) *t = v;
  return v;
}

int clock_gettime(clockid_t id, struct timespec *ts) {
  static int (*real)(clockid_t, struct timespec *);
  if (!real) real = dlsym(RTLD_NEXT, "clock_gettime");
  if (!state) decide();
  if (state != 1 || !have_clock) return real(id, ts);
  ts->tv_sec = now();
  ts->tv_nsec = 0;
  return 0;
}

int gettimeofday(struct timeval *tv, void *tz) {
  static int (*real)(struct timeval *, void *);
  if (!real) real = dlsym(RTLD_NEXT, "gettimeofday");
  if (!state) decide();
  if (state != 1 || !have_clock) return real(tv, tz);
  tv->tv_sec = now();
  tv->tv_usec = 0;
  return 0;
}

pid_t getpid(void) {
  static pid_t (*real)(void);
  if (!real) real = dlsym(RTLD_NEXT, "getpid");
  if (!state) decide();   // (the very first thing a program does may be to ask: the simulator must be awake by then)
  if (state == 1 && have_pid) return fake_pid;
  return real();
}

pid_t getppid(void) {
  static pid_t (*real)(void);
  if (!real) real = dlsym(RTLD_NEXT, "getppid");
  if (!state) decide();
  if (state == 1 && have_pid) return fake_pid / 2 + 1;
  return real();
}

clock_t clock(void) {
  static clock_t (*real)(void);
  if (!real) real = dlsym(RTLD_NEXT, "clock");
  if (!state) decide();
  if (state != 1 || !have_clock) return real();
  return (clock_t)(now() % 100000) * 1000;
}

// Environment variables nobody told the harness about: with ENVSIM_GETENV=<seed> every lookup the COMPILER makes (libc's own
// lookups do not come through here) is answered from the seed -- absent, or a made-up value -- whatever the real environment
// holds. The unchanged compiler never asks; a compiler that starts to ask gets different answers in different environments.
static long n_getenv;
static char *fuzz_env(const char *name) {
  if (!state) decide();
  char *v = env_get(name);
  if (state != 1 || !name || !strncmp(name, "ENVSIM_", 7) || !strncmp(name, "LD_", 3)) return v;
  const char *fz = env_get("ENVSIM_GETENV");
  if (!fz || !strcmp(fz, "0")) return v;
  n_getenv++;
  uint64_t h = strtoull(fz, 0, 0) ^ 0xcbf29ce484222325ull;
  for (const char *c = name; *c; c++) h = (h ^ (unsigned char)*c) * 0x100000001b3ull;
  h ^= h >> 29;
  if (h % 3 == 0) return NULL;
  static char buf[8][96];
  static int k;
  char *b = buf[k++ % 8];
  if (h % 3 == 1) snprintf(b, 96, "%llu", (unsigned long long)(h >> 8) % 100000);
  else snprintf(b, 96, "/envsim/%llx/%s", (unsigned long long)(h >> 8) & 0xffff, name);
  return b;
}
static long n_getenv_stat(void) { return n_getenv; }
char *getenv(const char *name) { return fuzz_env(name); }
char *secure_getenv(const char *name) { return fuzz_env(name); }

// how many processors, which kernel, which limits: seeded as well (ENVSIM_IDS third field)
#include <sys/resource.h>
#include <sys/utsname.h>
long sysconf(int name) {
  static long (*real)(int);
  if (!real) real = dlsym(RTLD_NEXT, "sysconf");
  long v = -1;
  if (!state) decide();
  if (state == 1 && (name == _SC_NPROCESSORS_ONLN || name == _SC_NPROCESSORS_CONF)) {
    const char *s = env_get("ENVSIM_IDS");
    if (s && (s = strrchr(s, ':'))) return 1 + atol(s + 1) % 64;
  }
  (void)v;
  return real(name);
}
int get_nprocs(void) { return (int)sysconf(_SC_NPROCESSORS_ONLN); }
int get_nprocs_conf(void) { return (int)sysconf(_SC_NPROCESSORS_CONF); }
int uname(struct utsname *u) {
  static int (*real)(struct utsname *);
  if (!real) real = dlsym(RTLD_NEXT, "uname");
  int r = real(u);
  if (!state) decide();
  const char *s = state == 1 ? env_get("ENVSIM_IDS") : NULL;
  if (r == 0 && s && (s = strrchr(s, ':'))) {
    long v = atol(s + 1);
    snprintf(u->nodename, sizeof u->nodename, "host%ld", v % 1000);
    snprintf(u->release, sizeof u->release, "%ld.%ld.0-sim", 3 + v % 4, v % 20);
    snprintf(u->version, sizeof u->version, "#%ld SMP sim", v);
  }
  return r;
}
int getrlimit(__rlimit_resource_t res, struct rlimit *rl) {
  static int (*real)(__rlimit_resource_t, struct rlimit *);
  if (!real) real = dlsym(RTLD_NEXT, "getrlimit");
  int r = real(res, rl);
  if (!state) decide();
  const char *s = state == 1 ? env_get("ENVSIM_IDS") : NULL;
  if (r == 0 && s && (s = strrchr(s, ':')) && rl->rlim_cur != RLIM_INFINITY) rl->rlim_cur >>= atol(s + 1) % 3; // what is REPORTED; the real limit stays
  return r;
}

// identity of the user / machine / terminal, and kernel randomness: seeded per environment (ENVSIM_IDS="uid:tty:rand")
static long ids_field(int k) {
  if (!state) decide();
  const char *s = env_get("ENVSIM_IDS");
  if (state != 1 || !s) return -1;
  for (; k > 0 && s; k--) { s = strchr(s, ':'); if (s) s++; }
  return s ? atol(s) : -1;
}
uid_t getuid(void) {
  static uid_t (*real)(void);
  if (!real) real = dlsym(RTLD_NEXT, "getuid");
  long v = ids_field(0);
  return v >= 0 ? (uid_t)v : real();
}
uid_t geteuid(void) {
  static uid_t (*real)(void);
  if (!real) real = dlsym(RTLD_NEXT, "geteuid");
  long v = ids_field(0);
  return v >= 0 ? (uid_t)v : real();
}
int isatty(int fd) {
  static int (*real)(int);
  if (!real) real = dlsym(RTLD_NEXT, "isatty");
  long v = ids_field(1);
  if (v >= 0) { if (!v) errno = ENOTTY; return (int)v; }
  return real(fd);
}
// the size of the terminal window, for a compiler that starts to format its diagnostics to it: with the `tty` identity (see
// isatty above) every window-size query is answered from the seed, whatever descriptor it is about
#include <sys/ioctl.h>
int ioctl(int fd, unsigned long req, ...) {
  static int (*real)(int, unsigned long, ...);
  if (!real) real = dlsym(RTLD_NEXT, "ioctl");
  va_list ap;
  va_start(ap, req);
  void *arg = va_arg(ap, void *);
  va_end(ap);
  if (req == TIOCGWINSZ && arg) {
    long tty = ids_field(1), v = ids_field(2);
    if (tty > 0 && v >= 0) {
      struct winsize *ws = arg;
      ws->ws_row = 20 + v % 50;
      ws->ws_col = 40 + v % 260;
      ws->ws_xpixel = ws->ws_ypixel = 0;
      return 0;
    }
    if (tty == 0) { errno = ENOTTY; return -1; }
  }
  return real(fd, req, arg);
}

int gethostname(char *name, size_t len) {
  static int (*real)(char *, size_t);
  if (!real) real = dlsym(RTLD_NEXT, "gethostname");
  long v = ids_field(2);
  if (v >= 0) { snprintf(name, len, "host%ld", v % 1000); return 0; }
  return real(name, len);
}
ssize_t getrandom(void *buf, size_t n, unsigned flags) {
  static ssize_t (*real)(void *, size_t, unsigned);
  if (!real) real = dlsym(RTLD_NEXT, "getrandom");
  long v = ids_field(2);
  if (v >= 0) { memset(buf, (int)(v & 0xff), n); return (ssize_t)n; }
  return real(buf, n, flags);
}

int mkstemp(char *tmpl) {
  static int (*real)(char *);
  if (!real) real = dlsym(RTLD_NEXT, "mkstemp");
  const char *tag = env_get("ENVSIM_TMPTAG");
  size_t n = strlen(tmpl);
  if (state != 1 || !tag || strlen(tag) != 6 || n < 6 || strcmp(tmpl + n - 6, "XXXXXX")) return real(tmpl);
  for (int tries = 0; tries < 100; tries++) {
    char name[8];
    snprintf(name, sizeof name, "%.4s%02d", tag, (int)(n_mkstemp++ % 100));
    memcpy(tmpl + n - 6, name, 6);
    int fd = open(tmpl, O_RDWR | O_CREAT | O_EXCL, 0600);
    if (fd >= 0) return fd;
    if (errno != EEXIST) break;
  }
  memcpy(tmpl + n - 6, "XXXXXX", 6);
  return real(tmpl);
}
