#!/usr/bin/env python3
# C12 -- self-hosting fixpoint and environment independence.
# Compiler replicas (stage 1 = gcc-built, stage 2 = built by stage 1, stage 3 = built by stage 2) are run
# under simulated environments (clock, time zone, file times, heap layout and heap junk, pid, temp
# names, stack offset; ASLR off so that layout is a function of the seed) and must agree byte for byte.
import glob, json, os, re, shutil, subprocess, sys, time

sys.path.insert(0, os.path.join(os.path.dirname(os.path.abspath(__file__)), "..", "common"))
from vcommon import *

PROP = "C12"
HERE = os.path.dirname(os.path.abspath(__file__))
TZS = ["UTC", "Asia/Tokyo", "America/Los_Angeles", "Pacific/Kiritimati", "XYZ-14", "ABC+11:30", "Europe/London"]
KNOBS = ["clock", "tz", "mtime", "heap", "pid", "tmpname", "stack", "envvars", "cwd", "fds", "perm", "ids", "stdin", "links", "proc", "envfuzz", "preexist", "closefd", "stdout_kind", "layout"]
TIMEOUT = 10
TIME_MACROS = re.compile(r"__DATE__|__TIME__|__TIMESTAMP__")


def sh(cmd, **kw):
    return subprocess.run(cmd, stdout=subprocess.PIPE, stderr=subprocess.STDOUT, **kw)


# ------------------------------------------------------------------ build the replicas
def build_replicas(sdir):
    src = os.path.join(sdir, "src")
    cc1 = build_chibicc(src)
    srcs = sorted(f for f in os.listdir(src) if f.endswith(".c"))
    reps = {}
    prev = cc1
    problem = None
    for stage in (1, 2, 3):
        d = os.path.join(sdir, "s%d" % stage)
        os.makedirs(d, exist_ok=True)
        if stage == 1:
            shutil.copy(cc1, os.path.join(d, "chibicc"))
        else:
            # the Makefile's stage2 rule, one step further for stage 3
            objs = []
            procs = []
            for f in srcs:
                o = os.path.join(d, f[:-2] + ".o")
                objs.append(o)
                procs.append((f, subprocess.Popen([prev, "-c", "-o", o, f], cwd=src, stdout=subprocess.PIPE, stderr=subprocess.STDOUT)))
            for f, p in procs:
                out, _ = p.communicate()
                if p.returncode != 0 and not problem:
                    problem = "stage %d: the stage-%d compiler fails on %s (status %d):\n%s" % (stage, stage - 1, f, p.returncode, out.decode(errors="replace")[-1500:])
            if problem:
                break
            r = sh(["gcc", "-o", os.path.join(d, "chibicc")] + objs)
            if r.returncode:
                problem = "stage %d does not link:\n%s" % (stage, r.stdout.decode(errors="replace")[-1500:])
                break
        if not os.path.exists(os.path.join(d, "include")):
            os.symlink(os.path.join(src, "include"), os.path.join(d, "include"))
        reps[stage] = d
        prev = os.path.join(d, "chibicc")
    so = os.path.join(BUILD, "libenvsim.so")
    s = os.path.join(HERE, "envshim.c")
    if not os.path.exists(so) or os.path.getmtime(so) < os.path.getmtime(s):
        os.makedirs(BUILD, exist_ok=True)
        r = sh(["gcc", "-O1", "-g", "-fPIC", "-shared", s, "-o", so, "-ldl"])
        if r.returncode:
            raise BuildError("envshim: " + r.stdout.decode())
    shutil.copy(so, os.path.join(sdir, "libenvsim.so"))
    return reps, problem


# ------------------------------------------------------------------ environments
def gen_env(r):
    return {"clock": [r.range(0, 4260000000), r.pick([0, 0, 1, 59, 3600, 86399, 40000000])],
            "tz": r.pick(TZS), "mtime": r.range(1, 4000000000), "heap": r.u64(), "pid": r.range(2, 4000000),
            "tmpname": "".join(r.pick("abcdefghijklmnopqrstuvwxyzABCDEFGHIJKLMNOPQRSTUVWXYZ0123456789") for _ in range(6)),
            "stack": r.pick([r.range(0, 4000), r.range(0, 120000), r.range(60000, 250000)]),   # bytes of environment: moves the stack by up to 250 KB
            "stdin": [r.pick(["pipe", "file", "file"]), r.pick([0, 0, 1, 17, 4096, 70000])],
            "proc": [r.pick([0, 0, 1, 1, 2, 4, 8, 15]), r.pick([0o022, 0o077, 0, 0o777])],   # signals inherited as ignored (1 PIPE, 2 INT, 4 HUP, 8 TERM: nohup-style launchers); umask
            # where the kernel puts things (ASLR stays off, so both layouts are reproducible): the default top-down layout or the legacy
            # bottom-up one (setarch -L), which moves every mapping -- shared libraries and the simulated heap with them.
            # (Moving the mmap base through the stack limit was tried and withdrawn: with 2 GiB of stack a runaway recursion of
            # a mutated input takes a minute to die instead of milliseconds, one-sidedly, and the check became a lottery of
            # wall-clock limits -- it ran into the 900 s ceiling of an independent run.)
            "layout": r.pick([0, 0, 1]),
            "stdout_kind": r.pick(["pipe", "pipe", "file", "null", "null", "fileoffset", "fileappend"]),   # what descriptor 1 is: a pipe, a regular file, the null device
            "closefd": r.pick([None, None, None, None, 2, 2, 0]),   # a standard descriptor that is closed when the compiler starts (cron- and daemon-style launchers)
            "envfuzz": r.range(1, 1 << 30),    # answers to getenv() calls of the compiler itself (none in the unchanged tree)
            # bytes of old content in the output and dependency files before the run; -1: what an earlier, slightly different build left there
            "preexist": r.pick([0, 0, 1, 7, 5000, 400000, -1, -1]),
            "links": r.below(3),   # how a header that duplicates another one exists: a copy, a hard link, a symbolic link
            "cwd": "cw" + "".join(r.pick("abcdefghij_") for _ in range(r.pick([1, 3, 8, 40, 120]))),
            "fds": r.pick([0, 0, 1, 3, 17]),
            "perm": [r.pick([0o644, 0o444, 0o755, 0o600]), r.below(2)],
            "ids": "%d:%d:%d" % (r.pick([0, 1000, 65534]), r.below(2), r.below(100000)),
            "envvars": [r.pick(["/root", "/home/u%d" % r.below(100), "/nonexistent"]), r.pick(["root", "builder", "u%d" % r.below(100)]),
                        r.pick(["C", "C.UTF-8", "en_US.UTF-8", "POSIX"]), str(r.range(20, 300)), r.pick(["dumb", "xterm-256color", "vt100"]), r.below(2)]}


def env_vars(e, sdir, stats):
    ev = e.get("envvars") or ["/nonexistent", "root", "C", "80", "dumb"]
    v = {"PATH": "/usr/bin:/bin", "LANG": ev[2], "LC_ALL": ev[2], "HOME": ev[0], "USER": ev[1], "LOGNAME": ev[1], "COLUMNS": ev[3], "TERM": ev[4], "LD_PRELOAD": os.path.join(sdir, "libenvsim.so"),
         "ENVSIM_SEED": str(e["heap"]), "ENVSIM_EPOCH": str(e["clock"][0]), "ENVSIM_TICK": str(e["clock"][1]), "TZ": e["tz"],
         "ENVSIM_PID": str(e["pid"]), "ENVSIM_TMPTAG": e["tmpname"], "ENVSIM_PAD": "x" * min(e["stack"], 125000), "ENVSIM_PAD2": "y" * max(0, e["stack"] - 125000)}
    v["ENVSIM_IDS"] = e.get("ids", "0:0:0")
    v["ENVSIM_GETENV"] = str(e.get("envfuzz", 0))
    ev2 = e.get("envvars") or []
    if len(ev2) > 5 and ev2[5]:
        v.update({"TMPDIR": "/tmp", "PWD": "/nonexistent/pwd", "CPATH": "/nonexistent/cpath", "C_INCLUDE_PATH": "/nonexistent/cinc", "SOURCE_DATE_EPOCH": "86400"})
    if stats:
        v["ENVSIM_STATS"] = stats
    return v


# ------------------------------------------------------------------ inputs
TOKEN = re.compile(r'\s+|"(?:\\.|[^"\\\n])*"|\'(?:\\.|[^\'\\\n])*\'|[A-Za-z_]\w*|\d[\w.]*|<<=|>>=|\.\.\.|->|\+\+|--|<<|>>|<=|>=|==|!=|&&|\|\||[-+*/%&|^]=|##|.', re.S)


def mutate(text, r):
    """token-level mutant: mostly diagnosed, sometimes still valid, sometimes crashes the front end"""
    toks = TOKEN.findall(text)
    idx = [i for i, t in enumerate(toks) if not t.isspace()]
    if len(idx) < 4:
        return text
    for _ in range(r.pick([1, 1, 1, 2, 3])):
        k = r.pick(idx)
        op = r.below(5)
        if op == 0:
            toks[k] = ""
        elif op == 1:
            toks[k] = toks[k] + " " + toks[k]
        elif op == 2:
            j = r.pick(idx)
            toks[k], toks[j] = toks[j], toks[k]
        elif op == 3:
            toks[k] = toks[r.pick(idx)]
        else:
            toks[k] = r.pick(["0", "1", "(", ")", "{", "}", ";", "int", "*", "-1", "0x7fffffffffffffff", "1.5e300", "\"s\"", "sizeof", "__LINE__", "__COUNTER__", "__FILE__"])
    # value-preserving-shape mutations: programs mostly stay valid, constants and operators change
    nums = [i for i in idx if toks[i][:1].isdigit()]
    opsi = [i for i in idx if toks[i] in ("+", "-", "*", "/", "%", "<<", ">>", "<", ">", "<=", ">=", "&", "|", "^", "==", "!=")]
    for _ in range(r.pick([0, 1, 2, 4])):
        if nums and r.below(2):
            i = r.pick(nums)
            toks[i] = r.pick(FLTLITS) if ("." in toks[i] or "e" in toks[i].lower() and not toks[i].lower().startswith("0x")) else r.pick(INTLITS[:37] + INTLITS[45:])
        elif opsi:
            i = r.pick(opsi)
            toks[i] = r.pick(["+", "-", "*", "/", "%", "<<", ">>", "<", ">", "<=", ">=", "&", "|", "^", "==", "!="])
    return "".join(toks)


INTLITS = ["0", "1", "2", "3", "7", "8", "10", "31", "32", "63", "64", "127", "128", "255", "256", "32767", "32768", "65535", "65536", "2147483647", "2147483648",
           "4294967295", "4294967296", "9223372036854775807", "0x7fffffffffffffff", "0x8000000000000000", "0xffffffffffffffff", "18446744073709551615U",
           "1U", "1L", "1UL", "1LL", "0xffu", "0x80000000", "0x80000000L", "077", "0b1011", "-1", "-2", "-128", "-2147483648L", "'a'", "'\\0'", "'\\377'", "'\\n'",
           # character constants whose value does not fit a byte, or is written with several bytes
           "'\\x80'", "'\\x1ff'", "'\\777'", "'\\xffff'", "'\u20ac'", "'\u3042'", "'ab'", "L'\\xffff'", "u'\u20ac'", "U'\\x10ffff'"]
FLTLITS = ["(0.0/0.0)", "(1e308*10)", "(-(1e308*10))", "(-0.0)", "((1e308*10)-(1e308*10))", "(0.0f/0.0f)", "0.0", "1.0", "0.5", "1.5", "0.1", "2.5e-3", "1e10", "1e308", "1.7976931348623157e308", "4.9e-324", "1e-400", "3.4028235e38f", "1.17549435e-38f", "0.1f", "16777217.0f",
           "0x1p-1074", "0x1.fffffffffffffp1023", "0x1.8p1", "1e4932L", "3.14159265358979323846L", "9007199254740993.0", "123456789012345678.0", "5e-1", ".5", "5."]


def gen_expr(r, depth, flt):
    if depth <= 0 or r.below(4) == 0:
        return r.pick(FLTLITS if flt and r.below(3) else INTLITS)
    if not flt and r.below(8) == 0:
        # a floating operand in a boolean / relational / cast position of an integer constant expression
        f = gen_expr(r, depth - 1, True)
        return r.pick(["(!%s)", "(%s ? 3 : 5)", "(%s && 1)", "(%s || 0)", "(%s == %s)", "(%s < 1.0)", "((int)(%s > 0.5))", "((_Bool)%s)"]).replace("%s", f)
    k = r.below(10)
    a = gen_expr(r, depth - 1, flt)
    if k == 0:
        return "(%s%s)" % (r.pick(["-", "~", "!", "+"]) if not flt else r.pick(["-", "+", "!"]), a)
    if k == 1:
        return "(%s ? %s : %s)" % (a, gen_expr(r, depth - 1, flt), gen_expr(r, depth - 1, flt))
    if k == 2 and not flt:
        return "(%s %s %s)" % (a, r.pick(["<<", ">>"]), r.pick(["0", "1", "3", "7", "31", "32", "63"]))
    if k == 3 and not flt:
        return "(%s %s (%s | 1))" % (a, r.pick(["/", "%"]), gen_expr(r, depth - 1, False))
    ops = ["+", "-", "*", "<", "<=", ">", ">=", "==", "!=", "&&", "||"] + ([] if flt else ["&", "|", "^"])
    if flt and k == 4:
        return "(%s / %s)" % (a, r.pick(["2.0", "3.0", "0.1", "7.0f", "1e-3"]))
    if k == 5:
        return "((%s)%s)" % (r.pick(["char", "unsigned char", "short", "unsigned short", "int", "unsigned", "long", "unsigned long", "_Bool"] + (["float", "double", "long double"] if flt else [])), a)
    return "(%s %s %s)" % (a, r.pick(ops), gen_expr(r, depth - 1, flt))


def gen_constexpr_file(r):
    """constant expressions in the three places the compiler evaluates them itself: #if, integer constant
    expressions (global initializers, array sizes, case labels, enum values) and floating initializers"""
    out = []
    n = r.range(4, 14)
    for i in range(n):
        k = r.below(7)
        if k == 0:
            e = gen_expr(r, r.range(1, 4), False).replace("(char)", "").replace("(unsigned char)", "").replace("(short)", "").replace("(unsigned short)", "")
            e = re.sub(r"\((int|unsigned|long|unsigned long|_Bool)\)", "", e)
            out.append("#if %s\nint pp_true_%d;\n#else\nint pp_false_%d;\n#endif" % (e, i, i))
        elif k == 1:
            out.append("long g_%d = %s;" % (i, gen_expr(r, r.range(1, 4), False)))
        elif k == 2:
            ty, e = r.pick(["double", "float", "long double", "double"]), gen_expr(r, r.range(1, 3), True)
            if ty == "long double":
                # (chibicc cannot initialise a long double object with static storage at all -- "internal error" -- and a file that
                # stops there shows nothing else: the value is folded into a double object, or computed by a function)
                out.append("double f_%d = (double)((long double)1 * %s);" % (i, e) if r.below(2) else "long double f_%d(void) { long double v = %s; return v + %s; }" % (i, e, r.pick(["1.5L", "0.1L", "1e-4900L", "0x1p-3L"])))
            else:
                out.append("%s f_%d = %s;" % (ty, i, e))
        elif k == 3:
            out.append("enum { E_%d = %s };\nchar a_%d[((E_%d) & 15) + 1];" % (i, gen_expr(r, r.range(1, 3), False), i, i))
        elif k == 4:
            out.append("struct B_%d { int a : %d; unsigned b : %d; long c : %d; } b_%d = { %s, %s, %s };" % (
                i, r.range(1, 31), r.range(1, 32), r.range(1, 63), i, gen_expr(r, 1, False), gen_expr(r, 1, False), gen_expr(r, 1, False)))
        elif k == 5 or r.below(3) == 0:
            # literals of every arithmetic type as function-call arguments and in expressions inside a function body
            lits = [r.pick(FLTLITS) for _ in range(3)] + [r.pick(["1.5L", "3.14159265358979323846L", "0x1p-3L", "1e-4900L", "2.5e300L", "0.1L"]), r.pick(INTLITS)]
            out.append("int printf(const char *, ...);\nvoid take_%d(long double, double, float, long, char);\n"
                       "long double calls_%d(int n) { printf(\"%%Lf %%f %%d\\n\", %s, (double)(%s), %s); take_%d(%s, %s, %s, %s, 'x'); return n ? %s + %s : %s; }" % (
                           i, i, lits[3], lits[0], lits[4], i, lits[3], lits[1], lits[2], lits[4], lits[3], lits[0], r.pick(["1.0L", "2.0L", lits[3]])))
        else:
            out.append("int sw_%d(int x) { switch (x) { case %s: return 1; case 1000 ... 1000 + %d: return 2; default: return (int)(%s); } }" % (
                i, r.pick(["-5", "0", "7", "'a'", "0x10"]), r.below(50), gen_expr(r, 2, r.below(2) == 0)))
    return "\n".join(out) + "\nint main(void) { return 0; }\n"


def gen_scale_file(r):
    """one construct repeated or stretched to a size around a power of two (tables, counters and fixed-width
    fields inside the compiler only show at scale)"""
    n = r.pick([255, 256, 257, 1000, 1023, 1024, 1025, 1500, 2048, 3000, 4095, 4097, 8200])
    k = r.below(12)
    if k == 0:
        return "struct big { %s };\nstruct big g = { %s };\nint main(void) { struct big l = { 1, 2 }; return g.m0 + l.m1; }\n" % (
            " ".join("int m%d;" % i for i in range(n)), ", ".join(str(i % 97) for i in range(n)))
    if k == 1:
        return "int f(void) { %s return v0 + v%d; }\nint main(void) { return f(); }\n" % (" ".join("int v%d = %d;" % (i, i) for i in range(min(n, 3000))), min(n, 3000) - 1)
    if k == 2:
        return 'char s[] = "%s";\nint main(void) { return sizeof(s) & 1; }\n' % ("x" * (n * r.pick([1, 17])))
    if k == 3:
        return "int f(int x) { switch (x) { %s default: return -1; } }\nint main(void) { return f(3); }\n" % " ".join("case %d: return %d;" % (i * 3, i) for i in range(min(n, 4100)))
    if k == 4:
        d = min(n, 600)
        return "int main(void) { int x = 0; %s x++; %s return x; }\n" % ("{" * d, "}" * d)
    if k == 5:
        name = "a" + "b" * n
        return "int %s = 3;\nint main(void) { return %s; }\n" % (name, name)
    if k == 6:
        return "#line %d\nint x = __LINE__;\n#line %d \"other.c\"\nint y = __LINE__;\nint main(void) { return 0 }\n" % (n * 40, n * 2000)
    if k == 7:
        return "long a[] = { %s };\nint main(void) { return sizeof(a) > 8; }\n" % ", ".join(str((i * 7919) % 100003) for i in range(n * 2))
    if k == 8:
        m = min(n, 300)
        return "#define M(%s) (%s)\nint x = M(%s);\nint main(void) { return 0; }\n" % (", ".join("p%d" % i for i in range(m)), " + ".join("p%d" % i for i in range(m)), ", ".join(str(i) for i in range(m)))
    if k == 9:
        m = min(n, 400)
        return "long f(%s) { return a0 + a%d; }\nlong main(void) { return f(%s); }\n" % (", ".join(("long a%d" if i % 3 else "double a%d") % i for i in range(m)), m - 1, ", ".join(str(i) for i in range(m)))
    if k == 10:
        return "struct bf { %s };\nstruct bf g = { %s };\nint main(void) { return g.b0; }\n" % (" ".join("unsigned b%d : %d;" % (i, 1 + i % 31) for i in range(min(n, 2100))), ", ".join(str(i) for i in range(min(n, 2100))))
    return "%s\nint main(void) { return e0 + E%d; }\n" % ("enum { e0, %s };" % ", ".join("E%d" % i for i in range(n)), n - 1)


def gen_lex_file(r):
    """lexical corners: literal spellings, escapes, encodings, and a diagnostic after tabs / multi-byte text"""
    forms = ['long a%d = 0b1011LLU + 0x7fLu + 017l + 1uLL;', 'double d%d = 0x1.8p+3 + 0x.8p1 + 1e-320 + 1E+308 + .5e1;', 'float f%d = 0x1p-149f + 3.4028235e38F + 1e-46f;',
             'long double l%d(void) { long double v = 0x1p-16445L; return v + 1.1897314953572317650857593266280070162E+4932L; }', 'char s%d[] = "\\x41\\101\\7\\e\\u00e9\\U0001F600\\x7f" "tail";',
             'unsigned short u%d[] = u"a\\u00e9😀b";', 'unsigned w%d[] = U"x😀\\U0010FFFF";', 'int c%d = \'\\377\' + \'\\x80\' + \'ab\' + L\'\\xffff\' + u\'é\';',
             'char r%d[] = "café 世界";', 'int été%d = 1, naïve%d = 2;', 'long big%d = 18446744073709551615 + 9223372036854775808 + 0xFFFFFFFFFFFFFFFF;',
             'int t%d(void) { return 1 ?""[0] : \'\\0\'; }', '#define STR%d(x) #x\nchar q%d[] = STR%d(  a  "b\\n"   \'c\' );', 'int line%d = __LINE__ + __COUNTER__;']
    out = []
    for i in range(r.range(3, 9)):
        f = r.pick(forms)
        out.append(f.replace("%d", str(i)))
    if r.below(2) == 0:
        # many numeric literals in one file, in every spelling (leading zeros on floating constants included: 08.5 is a double)
        pool = ["00.5", "07e1", "03.5f", "08.5", "09e0", "0129.0", "000.125L", "1e+5", "1.e5", ".5e-3", "0x1.8p3", "0X1P-2", "1e5f", "1e5L", "0b101", "0777", "0xFFu", "1ul",
                "1lu", "1LL", "1uLL", "0.0", "0e0", "1.", "1.f", "5e-1", "4.9e-324", "1e309", "0x1p1023", "017", "0", "00", "0x0", "1e-5000L", "123456789012345678901.0"]
        fav = r.pick(pool)      # one spelling dominates the file now and then
        local = r.below(2)      # objects with static storage (the compiler folds the value) or automatic ones (the code generator emits it)
        if local:
            out.append("void soup(void) {")
        for i in range(r.pick([10, 25, 60])):
            lit = fav if r.below(3) == 0 else r.pick(pool)
            out.append("%s n%d = %s;" % ("double" if not local and lit[-1] in "lL" and any(c in lit.lower() for c in ".ep") and not lit.lower().startswith("0b") else
                                         "long double" if lit.endswith("L") and "." in lit or "e" in lit.lower() and not lit.lower().startswith("0x") and lit[-1] in "lL" else
                                          "double" if any(c in lit.lower() for c in ".ep") and not lit.lower().startswith("0b") and not (lit.lower().startswith("0x") and "p" not in lit.lower()) else "long", 100 + i, lit))
        if local:
            out.append("}")
    if r.below(4) == 0:     # (a lexical error ends the run before anything is emitted: one file in four)
        out.append(r.pick(["\t\tint café = 3 $ 4;", "  char *p = \"世界\" @;", "\tint x = 08 + 1;", "int y = 0x;", "int z = 1.5e+;", "char c = '';", 'char *s = "unterminated;', "int big = 99999999999999999999999;"]))
    return "\n".join(out) + "\nint main(void) { return 0; }\n"


STORAGE_SPECS = ["typedef", "static", "extern", "inline", "_Thread_local", "__thread", "register", "auto", "_Noreturn"]
SPECS = ["typedef", "static", "extern", "inline", "_Thread_local", "__thread", "register", "auto", "const", "volatile", "restrict", "signed", "unsigned", "short", "long",
         "long long", "int", "char", "float", "double", "_Bool", "void", "_Atomic", "_Noreturn", "_Alignas(8)", "_Alignas(int)", "__attribute__((packed))", "struct S0", "enum E0", "T0"]


def gen_decl_file(r):
    """declaration-specifier soup: random sequences of storage classes, qualifiers and type specifiers in every
    position a declaration can stand (file scope, block scope, parameters, members, typedefs, casts, sizeof);
    most are rejected, and the diagnosis (which one, where) must not depend on who compiled the compiler"""
    out = ["struct S0 { int m; };", "enum E0 { E0a, E0b };", "typedef int T0;"]
    n = r.range(3, 10)
    for i in range(n):
        specs = " ".join(r.pick(SPECS) for _ in range(r.range(1, 5)))
        if r.below(4) == 0:
            # every fourth one is a combination of storage-class and function specifiers around one type: which combinations are
            # refused is decided by flags the compiler adds up
            specs = " ".join(r.sample(STORAGE_SPECS, r.range(2, 4)) + [r.pick(["int", "T0", "double", "char", "long"])])
            if r.below(2):
                specs = " ".join(reversed(specs.split(" ")))
        k = r.below(7)
        if k == 0:
            out.append("%s g%d;" % (specs, i))
        elif k == 1:
            out.append("%s f%d(%s p, %s);" % (specs, i, " ".join(r.pick(SPECS) for _ in range(r.range(1, 3))), " ".join(r.pick(SPECS) for _ in range(r.range(1, 3)))))
        elif k == 2:
            out.append("void b%d(void) { %s l%d; %s x%d = 0; }" % (i, specs, i, " ".join(r.pick(SPECS) for _ in range(r.range(1, 3))), i))
        elif k == 3:
            out.append("struct M%d { %s m%d; %s : 3; };" % (i, specs, i, r.pick(["int", "unsigned", "_Bool", "long", "char"])))
        elif k == 4:
            out.append("int s%d = sizeof(%s) + _Alignof(%s);" % (i, specs, " ".join(r.pick(SPECS) for _ in range(r.range(1, 3)))))
        elif k == 5:
            out.append("long c%d(long v) { return (%s)v; }" % (i, specs))
        else:
            out.append("typedef %s TD%d; TD%d v%d;" % (specs, i, i, i))
    return "\n".join(out) + "\nint main(void) { return 0; }\n"


def gen_proj(r):
    """a translation unit with headers of its own: protected by #pragma once, by a guard, or not at all; included several
    times under several spellings; some headers are byte-identical twins whose link structure the environment decides.
    Every expansion of a header consumes one __COUNTER__ value, so the number of expansions reaches the output."""
    nh = r.range(2, 4)
    texts = []
    for i in range(nh):
        prot = r.pick(["once", "once", "guard", "none"])
        body = "enum { PCAT(hc_, __COUNTER__) = %d };\nextern int hv;\n" % (i + 1)
        if prot == "once":
            t = "#pragma once\n" + body
        elif prot == "guard":
            t = "#ifndef PG_%d\n#define PG_%d\n%s#endif\n" % (i, i, body)
        else:
            t = body
        texts.append(t)
    aux = []
    for i in range(nh):
        alias = None
        if i > 0 and r.below(2):
            alias = "ph%d.h" % r.below(i)
            while True:     # an alias of an alias is an alias of the original
                a = next(x for x in aux if x[0] == alias)
                if a[2] is None:
                    break
                alias = a[2]
            texts[i] = next(x for x in aux if x[0] == alias)[1]
        aux.append(["ph%d.h" % i, texts[i], alias])
    aux.append(["psub/keep.h", "extern int hk;\n", None])
    main = ["#define PCAT_(a, b) a##b", "#define PCAT(a, b) PCAT_(a, b)"]
    for _ in range(r.range(3, 8)):
        h = "ph%d.h" % r.below(nh)
        main.append(r.pick(['#include "%s"', '#include "%s"', '#include "./%s"', '#include <%s>', '#include "psub/../%s"']) % h)
    main.append("int counter_after = __COUNTER__;")
    main.append("int main(void) { return counter_after; }")
    return "\n".join(main) + "\n", aux


TE_DECLS = """struct S { int m; int bf : 3; } s, *ps;
union U { int m; float f; } u;
enum E { EA, EB } e;
void fv(void); int fi(int); double fd(void); struct S fs(void); void *fvp(void);
int *p; void *vp; int a[3]; char str[4]; int (*fp)(int); const int ci = 3;
_Bool b; char c; unsigned char uc; short sh; int i; unsigned u32; long l; unsigned long ul; float f; double d; long double ld;
"""
TE_OPND = ["fv()", "fv()", "fi(1)", "fd()", "fs()", "fvp()", "s", "*ps", "u", "e", "EA", "p", "vp", "a", "str", "fp", "fi", "fv", "b", "c", "uc", "sh", "i", "u32", "l", "ul",
           "f", "d", "ld", "s.bf", "s.m", "ps->m", "u.f", "0", "1", "-1", "1.5", "2.5f", "3.5L", "\"lit\"", "(void)0", "(void)i", "&s", "&a", "a[1]", "*p", "*vp", "ci", "(char)1", "1u", "1ul",
           "(struct S){1}", "sizeof(int)", "'c'", "L'w'"]
TE_TYPES = ["void", "int", "struct S", "double", "int *", "_Bool", "long double", "enum E", "union U", "char", "unsigned long", "float", "void *", "int[3]", "int (*)(int)", "short"]
TE_BIN = ["+", "-", "*", "/", "%", "<<", ">>", "<", ">", "<=", ">=", "==", "!=", "&", "|", "^", "&&", "||", ",", "=", "+=", "-=", "*=", "/=", "%=", "<<=", ">>=", "&=", "|=", "^="]


def gen_typeexpr_file(r):
    """operands of every type category (void calls, structs, unions, pointers, functions, arrays, bit-fields, floats ...) under
    every operator, in value, condition, initializer and constant-expression positions: mostly type errors. Which one is
    diagnosed, how, and what is emitted for the accepted ones must not depend on who compiled the compiler."""
    def expr(depth):
        k = r.below(16)
        A = lambda: expr(depth - 1) if depth > 0 and r.below(4) == 0 else r.pick(TE_OPND)
        if k < 6:
            return "%s %s %s" % (A(), r.pick(TE_BIN), A())
        if k == 6:
            return "%s(%s)" % (r.pick(["-", "!", "~", "*", "&", "++", "--", "+", "sizeof", "_Alignof"]), A())
        if k == 7:
            return "(%s)%s" % (A(), r.pick(["++", "--", ".m", "->m", ".bf", "[1]", "(1)", "()"]))
        if k == 8:
            return "(%s)(%s)" % (r.pick(TE_TYPES), A())
        if k == 9:
            return "%s ? %s : %s" % (A(), A(), A())
        if k == 10:
            return "(%s)[%s]" % (A(), A())
        if k == 11:
            return "__builtin_reg_class(%s)" % r.pick(TE_TYPES)
        if k == 12:
            return "__builtin_types_compatible_p(%s, %s)" % (r.pick(TE_TYPES), r.pick(TE_TYPES + ["__typeof__(%s)" % r.pick(TE_OPND)]))
        if k == 13:
            return "_Generic(%s, int: 1, double: 2, void *: 3, default: 4)" % A()
        if k == 14:
            return "fi(%s)" % A()
        return "sizeof(%s) + _Alignof(%s)" % (r.pick(TE_TYPES), r.pick(TE_TYPES))
    out = [TE_DECLS]
    for n in range(r.pick([1, 1, 2, 3])):
        e = expr(1)
        k = r.below(8)
        if k == 0:
            out.append("long g%d = %s;" % (n, e))
        elif k == 1:
            out.append("void t%d(void) { if (%s) i = 1; }" % (n, e))
        elif k == 2:
            out.append("void t%d(void) { while (%s) break; }" % (n, e))
        elif k == 3:
            out.append("int t%d(void) { return %s; }" % (n, e))
        elif k == 4:
            out.append("void t%d(void) { switch (%s) { case 1: break; } }" % (n, e))
        elif k == 5:
            out.append("char arr%d[%s];" % (n, e))
        elif k == 6:
            out.append("void t%d(void) { %s v = %s; }" % (n, r.pick(TE_TYPES[1:9]).replace("int[3]", "int"), e))
        else:
            out.append("void t%d(void) { (void)(%s); %s; }" % (n, e, expr(0)))
    return "\n".join(out) + "\nint main(void) { return 0; }\n"


ABI_SCALARS = ["char", "signed char", "unsigned char", "short", "unsigned short", "int", "unsigned", "long", "unsigned long", "float", "double", "long double",
               "_Bool", "char *", "int *"]


def gen_abi_file(r):
    """valid programs that pass and return every kind of object by value: structs and unions of 1..40 bytes with integer,
    floating, long double, array, nested and bit-field members; up to 12 parameters (so some travel on the stack);
    variadic callees. Which registers, which stack slots, which copies -- the calling-convention code of the compiler is
    what the self-compiled compiler must get right about itself."""
    out = ["#include <stdarg.h>", "long sink;"]
    structs = []
    for i in range(r.range(1, 5)):
        kw = "union" if r.below(6) == 0 else "struct"
        members = []
        for j in range(r.range(1, 5)):
            k = r.below(10)
            if k == 6:
                members.append("char a%d[%d];" % (j, r.pick([1, 2, 3, 5, 7, 8, 9, 15, 16, 17, 24, 31, 33])))
            elif k == 7 and structs:
                members.append("%s n%d;" % (r.pick(structs), j))
            elif k == 8:
                bt = r.pick(["int", "unsigned", "long", "_Bool", "char", "unsigned char", "short"])
                w = {"int": 32, "unsigned": 32, "long": 64, "_Bool": 1, "char": 8, "unsigned char": 8, "short": 16}[bt]
                members.append("%s b%d : %d;" % (bt, j, r.range(1, w)))
            elif k == 9:
                members.append("%s f%d[%d];" % (r.pick(["float", "double", "short", "int"]), j, r.pick([1, 2, 3, 4])))
            else:
                members.append("%s m%d;" % (r.pick(ABI_SCALARS), j))
        name = "%s A%d" % (kw, i)
        out.append("%s { %s };" % (name, " ".join(members)))
        out.append("%s g%d;" % (name, i))
        structs.append(name)
    types = ABI_SCALARS + structs * 3

    def lit(t):
        if t in structs:
            return "g%d" % structs.index(t)
        if "*" in t:
            return "(%s)0" % t
        return "(%s)%d" % (t, r.below(100))
    funcs = []
    for i in range(r.range(1, 4)):
        ret = r.pick(types + ["void"])
        ps = [r.pick(types) for _ in range(r.pick([0, 1, 2, 3, 5, 7, 9, 12]))]
        variadic = bool(ps) and r.below(5) == 0
        plist = ", ".join("%s p%d" % (t, k) for k, t in enumerate(ps)) or "void"
        body = []
        if variadic:
            plist += ", ..."
            vt = r.pick(["int", "double", "long", "char *"] + structs)
            body.append("va_list ap; va_start(ap, p%d); %s v = va_arg(ap, %s); va_end(ap); sink += sizeof v;" % (len(ps) - 1, vt, vt))
        for k, t in enumerate(ps):
            if t in structs:
                body.append("g%d = p%d;" % (structs.index(t), k))
            elif "*" in t:
                body.append("sink += p%d != 0;" % k)
            else:
                body.append("sink += (long)p%d;" % k)
        same = [k for k, t in enumerate(ps) if t == ret]
        if ret == "void":
            body.append("return;")
        elif same and r.below(2):
            body.append("return p%d;" % r.pick(same))
        else:
            body.append("return %s;" % lit(ret))
        out.append("%s f%d(%s) { %s }" % (ret, i, plist, " ".join(body)))
        funcs.append((i, ret, ps, variadic))
    main = []
    for i, ret, ps, variadic in funcs:
        for _ in range(r.range(1, 2)):
            args = [lit(t) for t in ps]
            if variadic:
                args += [lit(r.pick(["int", "double", "long", "char *"] + structs)) for _ in range(r.range(1, 3))]
            call = "f%d(%s)" % (i, ", ".join(args))
            if ret in structs:
                main.append("g%d = %s;" % (structs.index(ret), call))
            elif ret == "void":
                main.append("%s;" % call)
            elif "*" in ret:
                main.append("sink += %s != 0;" % call)
            else:
                main.append("sink += (long)%s;" % call)
    out.append("int main(void) { %s return (int)sink; }" % " ".join(main))
    return "\n".join(out) + "\n"


def gen_feature_file(r):
    """valid programs made of constructs ordinary test inputs rarely combine: statement expressions, case ranges, computed goto,
    packed / aligned layouts, _Generic, flexible array members and designated ranges with initializers, wide strings, typeof,
    file-scope compound literals, anonymous unions, enums with negative and huge values, literal suffixes, thread-local objects,
    VLAs, alloca, bit-fields, long strings, long double chains, hundreds of cases, deep nesting, function-pointer arrays ...
    Each one reaches code in the compiler that little else reaches; three to eight per file, with varying constants."""
    from featsnips import SNIPS
    picks = [r.pick(SNIPS) for _ in range(r.range(3, 8))]
    fs_all, body_all = [], []
    for k, (name, fs, body) in enumerate(picks):
        n = r.pick([3, 17, 150, 300])
        sub = dict(k=k, a=r.range(1, 9), b=r.range(1, 40), S="x" * r.pick([10, 300, 5000]) + "\\n\\\"q",
                   CASES=" ".join("case %d: return %d;" % (i * 3, i) for i in range(n)),
                   PARENS="(" * r.pick([5, 60, 200]) + "1" + "+1)" * 0, BLOCKS="")
        d = r.pick([5, 60, 200])
        sub["PARENS"] = "(" * d + "1" + "+1)" * d
        d = r.pick([3, 40, 120])
        sub["BLOCKS"] = "{" * d + " sink += 1; " + "}" * d
        fs_all.append(fs.format(**sub))
        body_all.append(body.format(**sub))
    return "long sink;\n%s\nint main(void) { %s return (int)sink; }\n" % ("\n".join(fs_all), "\n  ".join(body_all))


PREDEF_CACHE = {}


def gen_predef_file(r, src):
    """probes of every name the compiler's own sources mention in a string literal that could be a macro name (predefined
    macros come from there): defined or not, what it expands to (-E), and the size of what it expands to (-S). The list is read
    from the working tree, so a macro that a change adds is probed without anybody telling the harness."""
    if src not in PREDEF_CACHE:
        names = set()
        for f in ("preprocess.c", "main.c"):
            try:
                t = open(os.path.join(src, f), errors="replace").read()
            except OSError:
                continue
            names |= set(re.findall(r'"([A-Za-z_][A-Za-z0-9_]{2,40})"', t))
        PREDEF_CACHE[src] = sorted(n for n in names if n.startswith("_") or n.isupper() or n in ("linux", "unix", "i386"))
    names = PREDEF_CACHE[src]
    if not names:
        return "int main(void) { return 0; }\n"
    pick = r.sample(names, min(len(names), r.pick([3, 8, 20, len(names)])))
    out = ["long sink;"]
    style = r.below(3)
    for k, n in enumerate(pick):
        out.append("#ifdef %s" % n)
        if style == 0:
            out.append('"%s" %s ;' % (n, n))                       # for -E: the expansion itself
        elif style == 1:
            out.append("void pf%d(void) { sink += sizeof(%s); }" % (k, n))   # for -S: the type of what it expands to
        else:
            out.append("#if (%s) < 0\nint neg%d;\n#elif (%s) > 0x7fffffff\nint big%d;\n#else\nint mid%d;\n#endif" % (n, k, n, k, k))  # the value, as #if sees it
        out.append("#endif")
    out.append("int main(void) { return 0; }")
    return "\n".join(out) + "\n"


def list_inputs(src):
    own = [os.path.join(src, f) for f in sorted(os.listdir(src)) if f.endswith(".c")]
    tests = [os.path.join(src, "test", f) for f in sorted(os.listdir(os.path.join(src, "test"))) if f.endswith(".c")]
    return own, tests


OPTION_SETS = [["-S", "-o-stdout"], ["-S", "-o-stdout", "-fPIC"], ["-E", "-o-stdout"], ["-S", "-o-stdout", "-g"], ["-S", "-o-stdout", "-fno-common"], ["-S", "-o-stdout"], ["-xc-stdin", "-S"], ["-xc-stdin", "-E"], ["-xc-stdin", "-c"], ["-###"], ["-###", "-c"], [], ["-###", "-static"], ["-###", "-shared", "-fPIC"], ["-###", "-L.", "-lm", "-Wl,--as-needed,-z,now", "-Xlinker", "--no-undefined", "-s"],
               ["-###", "-S", "-xc", "-idirafter", "test", "-I.", "-include", "stdbool.h"],
               ["-M", "-MT", "foo bar$x.o"], ["-MD", "-MP", "-MT", "a#b", "-S"], ["-MMD", "-c"], ["-M", "-MP"], ["-M", "-MQ", "x y$.o"], ["-MD", "-MT", "t1", "-MT", "t2", "-E"],
               ["-E", "-xc"], ["-S", "-x", "c"], ["-E", "-DX=a=b", "-DY=", "-UX", "-D", "Z(a,b)=a##b"], ["-S", "-idirafter", "test", "-fno-common"],
               ["-E", "-include", "stdarg.h", "-include", "stddef.h"], ["-S", "-O2", "-g", "-Wall", "-std=c11", "-fno-builtin"], ["-c", "-fcommon", "-DNDEBUG"],
               ["-S"], ["-S"], ["-S", "-fPIC"], ["-S", "-fno-common"], ["-S", "-fcommon"], ["-E"], ["-E"], ["-c"], ["-c", "-fPIC"],
               ["-M"], ["-MD", "-S"], ["-MD", "-MP", "-c"], ["-S", "-DFOO=1", "-DBAR"], ["-S", "-U__x86_64__"], ["-E", "-DM(x)=x+1"], ["-S", "-include", "stddef.h"]]


def gen_case(seed, src, own, tests, avail=None):
    r = Rng(seed)
    x = r.below(39)
    gen_text = None
    aux = None
    fam = None
    if x >= 37:
        path, mutated = tests[0], False
        gen_text = gen_feature_file(r)
        fam = "feature"
    elif x >= 36:
        path, mutated = tests[0], False
        gen_text = gen_predef_file(r, src)
        fam = "predef"
    elif x >= 34:
        path, mutated = tests[0], False
        gen_text = gen_abi_file(r)
        fam = "abi"
    elif x >= 32:
        path, mutated = tests[0], False
        gen_text, aux = gen_proj(r)
        fam = "proj"
    elif x >= 30:
        path, mutated = tests[0], False
        gen_text = gen_typeexpr_file(r)
        fam = "typeexpr"
    elif x >= 27:
        path, mutated = tests[0], False
        gen_text = gen_decl_file(r)
        fam = "decl"
    elif x >= 25:
        path, mutated = tests[0], False
        gen_text = gen_lex_file(r)
        fam = "lex"
    elif x >= 24:
        path, mutated = tests[0], False
        gen_text = gen_scale_file(r)
        fam = "scale"
    elif x >= 20:
        path, mutated = tests[0], False
        gen_text = gen_constexpr_file(r)
        fam = "constexpr"
    elif x < 1:
        # (the compiler's own sources are the biggest inputs there are -- a comparison over one costs as much as twenty others)
        path, mutated = r.pick(own), False
    elif x < 7:
        path, mutated = r.pick(tests), False
    elif x < 16:
        path, mutated = r.pick(tests), True
    elif x < 17:
        path, mutated = r.pick(own), True
    elif x == 17:
        path, mutated = tests[0], False
        gen_text = gen_scale_file(r)
        fam = "scale"
    elif x == 18:
        path, mutated = tests[0], False
        gen_text = gen_lex_file(r)
        fam = "lex"
    else:
        path, mutated = tests[0], False
        gen_text = gen_predef_file(r, src)
        fam = "predef"
    opts = list(r.pick(OPTION_SETS))
    if "-o-stdout" in opts and "-S" in opts and r.below(2) == 0:
        # the output itself goes to descriptor 1: inputs that are rejected only by the code generator (`a + 1 = 2;`) belong here
        path, mutated, aux = tests[0], False, None
        gen_text = gen_typeexpr_file(r)
        fam = "typeexpr"
    ra = r.pick([1, 1, 2, 2, 3])
    rb = r.pick([1, 2, 2, 3, 3])
    if avail:
        ra = ra if ra in avail else max(avail)
        rb = rb if rb in avail else max(avail)
    e1, e2 = gen_env(r), gen_env(r)
    same_env = r.below(5) == 0 and ra != rb      # pure stage equivalence: different replica, same environment
    if same_env:
        e2 = json.loads(json.dumps(e1))
    case = {"seed": seed, "input": os.path.relpath(path, src), "mutated": mutated, "mut_seed": r.u64(), "opts": opts, "a": ra, "b": rb, "e1": e1, "e2": e2}
    if r.below(6) == 0:
        case["shape"] = [r.range(1, 12), r.below(1000)]    # how the bytes of the file end / are laid out (see reshape)
    if gen_text is not None:
        case["input"] = "test/generated_constexpr.c"
        case["text"] = gen_text
    if aux:
        case["aux"] = aux
    case["family"] = fam or ("own" if path in own else "tests") + ("-mutated" if mutated else "")
    return case


def reshape(text, shape):
    """the same program in another byte layout: the reader's buffer handling, not the grammar, is what differs"""
    k, n = shape
    if k == 1:
        return text.rstrip("\n")                               # no newline at the end of the file
    if k == 2:
        return text.rstrip("\n") + " \\"                       # ... and a backslash as the very last byte
    if k == 3:
        return text + "\\\n"                                   # a backslash-newline as the last line
    if k == 4:
        return text.replace("\n", "\r\n")                       # CRLF line ends
    if k == 5:
        return "\ufeff" + text                                  # a byte-order mark
    if k in (6, 7, 8):
        # total size a multiple of 4096 (or one less / one more): padding goes into a comment at the end
        want = {6: 0, 7: 4095, 8: 1}[k]
        b = len(text.encode("utf-8", "replace")) + 5
        pad = (want - b) % 4096
        return text + "/*" + "p" * pad + "*/\n"
    if k == 9:
        i = text.find("\n", n % max(1, len(text)))
        i = len(text) if i < 0 else i
        return text[:i] + " /* \0 */" + text[i:]               # a NUL byte inside a comment
    if k == 10:
        return text + "// no newline after this comment"
    if k == 11:
        return text + "\f\v\n\n\n   \t"
    return "/*" + "L" * (200000 + n) + "*/" + text            # one very long first line


def materialise(case, src, wdir):
    """writes the input file for this case; returns (abs path, text)"""
    p = os.path.join(src, case["input"])
    if case.get("text") is not None:
        text = case["text"]
    else:
        text = open(p, errors="replace").read()
    if case.get("text") is not None:
        pass
    elif case["mutated"]:
        text = mutate(text, Rng(case["mut_seed"]))
    if case.get("shape"):
        text = reshape(text, case["shape"])
    d = os.path.join(wdir, "in", os.path.dirname(case["input"]))
    os.makedirs(d, exist_ok=True)
    q = os.path.join(d, os.path.basename(case["input"]))
    with open(q, "w", encoding="utf-8", errors="replace", newline="") as f:
        f.write(text)
    for name, atext, alias in case.get("aux") or []:
        ap = os.path.join(d, name)
        os.makedirs(os.path.dirname(ap), exist_ok=True)
        if os.path.lexists(ap):
            os.unlink(ap)
        with open(ap, "w") as f:
            f.write(atext)
    return q, text


def _child_setup(e, bigstack, stdin_used=False, runs_tools=False):
    def f():
        if bigstack:
            import resource
            resource.setrlimit(resource.RLIMIT_STACK, (4 << 30, resource.RLIM_INFINITY))
        elif e.get("layout") in (2, 3):
            import resource
            resource.setrlimit(resource.RLIMIT_STACK, ({2: 512 << 20, 3: 2 << 30}[e["layout"]], resource.RLIM_INFINITY))
        cf = e.get("closefd")
        if cf == 2 and runs_tools:
            cf = None   # (with descriptor 2 closed GNU as writes its warnings into whatever file it opens next -- its own output: not the compiler's doing)
        if cf is not None and not (cf == 0 and stdin_used):
            try:
                os.close(cf)
            except OSError:
                pass
        pr = e.get("proc") or [0, 0o022]
        if pr[0]:
            import signal
            for bit, sg in ((1, signal.SIGPIPE), (2, signal.SIGINT), (4, signal.SIGHUP), (8, signal.SIGTERM)):
                if pr[0] & bit:
                    signal.signal(sg, signal.SIG_IGN)
        os.umask(pr[1])
    return f


def run_replica(sdir, reps, stage, e, infile, opts, src, wdir, stats, timeout=None, aux=None, bigstack=False):
    for name, atext, alias in aux or []:
        if alias:
            ap, tp = os.path.join(os.path.dirname(infile), name), os.path.join(os.path.dirname(infile), alias)
            if os.path.lexists(ap):
                os.unlink(ap)
            how = e.get("links", 0)
            if how == 1:
                os.link(tp, ap)
            elif how == 2:
                os.symlink(alias, ap)
            else:
                with open(ap, "w") as f:
                    f.write(atext)
    out = os.path.join(wdir, "out.bin")
    dep = os.path.join(wdir, "out.d")
    hist_old = None
    if e.get("preexist") == -1:
        # history: the same replica in the same environment has built this before -- with -MP in addition when dependencies are
        # written (the old rule file then begins with the new one and goes on), else from a source that had two more definitions
        e0 = dict(e, preexist=0)
        deps = any(o in opts for o in ("-MD", "-MMD", "-M"))
        orig = open(infile, "rb").read()
        try:
            if not deps:
                with open(infile, "ab") as f:
                    f.write(b"\nint verif_history_extra_object = 1;\nint verif_history_extra_fn(void) { return 2; }\n")
            r0 = run_replica(sdir, reps, stage, e0, infile, opts + (["-MP"] if deps and "-MP" not in opts else []), src, wdir, None, timeout=timeout, aux=aux, bigstack=bigstack)
        finally:
            with open(infile, "wb") as f:
                f.write(orig)
        hist_old = (r0.get("out_raw"), r0.get("dep_raw"))
        if os.path.exists(out):
            os.utime(out, (12345, 12345))      # (to tell "left alone" from "rewritten with the same bytes" afterwards)
    for f in (out, dep):
        if hist_old is not None:
            continue        # whatever the earlier build left stays where it is
        if os.path.exists(f):
            os.unlink(f)
        if e.get("preexist"):
            with open(f, "wb") as fh:     # old content, longer or shorter than what will be written: it must not survive
                fh.write((b"OLD CONTENT %d\n" % e["preexist"]) * (e["preexist"] // 14 + 1))
    from_stdin = "-xc-stdin" in opts
    opts = [o for o in opts if o != "-xc-stdin"]
    argv = ["setarch", "x86_64", "-R"] + (["-L"] if e.get("layout") == 1 else []) + ["./chibicc"] + opts + ["-I" + os.path.join(src, "test"), "-I" + os.path.dirname(infile), "-I" + src] + (["-xc", "-"] if from_stdin else [infile])
    to_stdout = "-o-stdout" in opts
    if to_stdout:
        argv = [a for a in argv if a != "-o-stdout"] + ["-o", "-"]     # the output itself goes to descriptor 1
    elif "-E" not in opts and "-M" not in opts:
        argv += ["-o", out]
    if "-MD" in opts:
        argv += ["-MF", dep]
    os.utime(infile, (e["mtime"], e["mtime"]))
    # every replica is invoked as ./chibicc: argv[0] ends up in include paths. The working directory is a knob too,
    # except for -c and link runs (the debug info `as` writes records it, which is not the compiler's doing)
    records_cwd = not any(o in opts for o in ("-E", "-S", "-M")) or "-c" in opts
    if e.get("cwd") and not records_cwd:
        wdir_run = os.path.join(wdir, e["cwd"])
        os.makedirs(wdir_run, exist_ok=True)
    else:
        wdir_run = wdir
    try:
        os.chmod(infile, e.get("perm", [0o644, 0])[0])
        extra_link = infile + ".hardlink"
        if os.path.lexists(extra_link):
            os.unlink(extra_link)
        if e.get("perm", [0, 0])[1]:
            os.link(infile, extra_link)
    except OSError:
        pass
    real_wdir, wdir = wdir, wdir_run
    link = os.path.join(wdir, "chibicc")
    if os.path.lexists(link):
        os.unlink(link)
    os.symlink(os.path.join(reps[stage], "chibicc"), link)
    if not os.path.lexists(os.path.join(wdir, "include")):
        os.symlink(os.path.join(src, "include"), os.path.join(wdir, "include"))
    # a mutated input may make the front end loop or allocate without bound: 10 s wall / 4 GiB of output at most,
    # and the whole process group (driver and cc1) is killed on expiry
    extra_fds = [os.open("/dev/null", os.O_RDONLY) for _ in range(e.get("fds", 0))]
    stdin_arg, feed = subprocess.DEVNULL, None
    if from_stdin:
        kind, off = e.get("stdin", ["pipe", 0])
        data = open(infile, "rb").read()
        if kind == "pipe":
            stdin_arg, feed = subprocess.PIPE, data
        else:
            # a regular file whose first `off` bytes the caller has already consumed: what is left to read is the input
            sf = os.path.join(real_wdir, "stdin.bin")
            with open(sf, "wb") as f:
                f.write(b"@" * off + data)
            stdin_arg = os.open(sf, os.O_RDONLY)
            os.lseek(stdin_arg, off, os.SEEK_SET)
    run_dir = wdir

    def listing():
        s = set()
        for d in (run_dir, os.path.dirname(infile)):
            for root, dirs, fs in os.walk(d):
                if root == run_dir:
                    dirs[:] = [x for x in dirs if x not in ("in", "include") and not x.startswith("cw")]
                for x in fs + dirs:
                    s.add(os.path.relpath(os.path.join(root, x), d))
        return s    # (/tmp is shared with the other workers: what is left there is C14's business, and C14 has a private one)
    files_before = listing()
    stats_path = stats or os.path.join(real_wdir, "stats.run")
    stats_before = os.path.getsize(stats_path) if os.path.exists(stats_path) else 0
    sk = e.get("stdout_kind", "pipe")
    so_path = os.path.join(real_wdir, "stdout.cap")
    SO_PREFIX = b"earlier text written through descriptor 1\n" * 3
    if sk in ("fileoffset", "fileappend"):
        # descriptor 1 is a file that already holds text: positioned after it, or opened for appending. What the compiler
        # writes comes after that text and leaves it alone.
        with open(so_path, "wb") as f0:
            f0.write(SO_PREFIX)
        so_arg = open(so_path, "ab") if sk == "fileappend" else open(so_path, "r+b")
        if sk == "fileoffset":
            so_arg.seek(len(SO_PREFIX))
    else:
        so_arg = subprocess.PIPE if sk == "pipe" else (open(so_path, "wb") if sk == "file" else open(os.devnull, "wb"))
    envv = env_vars(e, sdir, stats_path)
    # temporaries live in the real /tmp, which all workers share: the first character of the simulated mkstemp tag is the worker's
    # lane, so that no two concurrent runs of this check can ever use the same names, and what a killed run leaves behind can be
    # removed without touching anybody else's files
    lane = re.match(r"w(\d+|replay)$", os.path.basename(real_wdir.rstrip("/")))
    tmp_glob = None
    if lane:
        ch = "Z" if lane.group(1) == "replay" else "abcdefghijklmnopqrstuvwxyzABCDEFGHIJKLMNOPQRSTUVWXY"[int(lane.group(1)) % 51]
        envv["ENVSIM_TMPTAG"] = ch + e["tmpname"][1:]
        tmp_glob = "/tmp/chibicc-" + envv["ENVSIM_TMPTAG"][:4] + "[0-9][0-9]"

    def sweep_tmp():
        for x in glob.glob(tmp_glob) if tmp_glob else []:
            try:
                os.unlink(x)
            except OSError:
                pass
    po = subprocess.Popen(argv, cwd=wdir, env=envv, stdin=stdin_arg, stdout=so_arg, stderr=subprocess.PIPE,
                          start_new_session=True, pass_fds=extra_fds, preexec_fn=_child_setup(e, bigstack, from_stdin, records_cwd))
    if isinstance(stdin_arg, int) and stdin_arg >= 0 and from_stdin:
        os.close(stdin_arg)
    for fd in extra_fds:
        os.close(fd)
    wdir = real_wdir
    try:
        so, se = po.communicate(feed, timeout=timeout or TIMEOUT)
    except subprocess.TimeoutExpired:
        try:
            os.killpg(po.pid, 9)
        except OSError:
            pass
        po.communicate()
        sweep_tmp()
        return {"status": "timeout", "stdout": b"", "stderr": b"", "out": None, "dep": None}
    sweep_tmp()

    class P:
        pass
    p = P()
    if sk != "pipe":
        so_arg.close()
        so = open(so_path, "rb").read() if sk != "null" else None   # (what went to the null device is gone: not compared)
        if sk in ("fileoffset", "fileappend"):
            so = so[len(SO_PREFIX):] if so.startswith(SO_PREFIX) else b"<the text that was there before is damaged> " + so
    p.returncode, p.stdout, p.stderr = po.returncode, so, se
    # the assembler names its input, a temporary with a random name, in its own messages: not compiler output
    err = re.sub(rb"/tmp/chibicc-[A-Za-z0-9]{6}", b"/tmp/chibicc-TEMP", p.stderr)
    # files that came into being next to the input or in the working directory, other than the requested ones
    newf = sorted(x for x in listing() - files_before if os.path.basename(x) not in ("out.bin", "out.d", "stats", "stats.run", "stdin.bin", "stdout.cap") and not x.endswith(".hardlink"))
    for x in newf:      # (and they go away again, so that the next run starts from the same directory)
        for d in (run_dir, os.path.dirname(infile)):
            q = os.path.join(d, x)
            try:
                if os.path.isfile(q) or os.path.islink(q):
                    os.unlink(q)
            except OSError:
                pass
    newf = [re.sub(r"chibicc-[A-Za-z0-9]{6}", "chibicc-TEMP", x) for x in newf]
    res = {"status": p.returncode, "stdout": p.stdout, "stderr": err, "out": None, "dep": None, "newfiles": "\n".join(newf).encode()}
    # did the compiler itself ask for an environment variable (the shim counts the answers it made up)?
    asked = 0
    try:
        with open(stats_path) as fh:
            fh.seek(stats_before)
            for l in fh:
                m_ = re.search(r"getenv_answered=(\d+)", l)
                asked += int(m_.group(1)) if m_ else 0
    except OSError:
        pass
    res["asked_env"] = asked
    old = (b"OLD CONTENT %d\n" % e["preexist"]) * (e["preexist"] // 14 + 1) if e.get("preexist", 0) > 0 else None
    old_dep = old
    if os.path.exists(out):
        res["out"] = res["out_raw"] = open(out, "rb").read()
        if res["out"] == old or (hist_old is not None and res["status"] != 0 and os.stat(out).st_mtime == 12345):
            res["out"] = None       # left alone (by a failed run, in the history case): the same as not having been there
    # (the dependency file of an earlier build is compared as it is: it is written before the front end can fail, so every run rewrites it)
    if os.path.exists(dep):
        res["dep"] = res["dep_raw"] = open(dep, "rb").read()
        if res["dep"] == old_dep:
            res["dep"] = None
    return res


def diff_fields(a, b):
    return [k for k in ("status", "stdout", "stderr", "out", "dep", "newfiles") if a.get(k) != b.get(k)]


def equalise_time(case, text):
    """__DATE__, __TIME__ and __TIMESTAMP__ are exempt by the statement: when the input can mention them
    the clock, zone and file time are held equal while everything else still varies"""
    if TIME_MACROS.search(text) or case["input"].endswith("macro.c") or "-M" in case["opts"] and False:
        for k in ("clock", "tz", "mtime"):
            case["e2"][k] = json.loads(json.dumps(case["e1"][k]))
        return True
    return False


stats_counter = {}


HARD_STOP = [None]      # wall-clock ceiling of a worker: past it nothing is decided again with a longer limit (the case counts as inconclusive)


def past_hard_stop():
    return HARD_STOP[0] is not None and time.monotonic() > HARD_STOP[0]


def evaluate(case, sdir, reps, src, wdir, stats=None):
    infile, text = materialise(case, src, wdir)
    held = equalise_time(case, text)
    ra = run_replica(sdir, reps, case["a"], case["e1"], infile, case["opts"], src, wdir, stats, aux=case.get("aux"))
    rb = run_replica(sdir, reps, case["b"], case["e2"], infile, case["opts"], src, wdir, stats, aux=case.get("aux"))
    if ra["status"] == "timeout" or rb["status"] == "timeout":
        if ra["status"] == rb["status"]:
            return None, ra, rb, held, text     # both hang the same way: an input problem, not a divergence
        # one-sided: a loaded machine, or a real divergence (one replica loops)? decide with six times the budget
        if past_hard_stop():
            return None, ra, rb, held, text
        ra = run_replica(sdir, reps, case["a"], case["e1"], infile, case["opts"], src, wdir, None, timeout=6 * TIMEOUT, aux=case.get("aux"))
        rb = run_replica(sdir, reps, case["b"], case["e2"], infile, case["opts"], src, wdir, None, timeout=6 * TIMEOUT, aux=case.get("aux"))
        if ra["status"] == "timeout" and rb["status"] == "timeout":
            return None, ra, rb, held, text
        if ra["status"] == "timeout" or rb["status"] == "timeout":
            return ["status"], ra, rb, held, text
    def fields(x, y):
        d = diff_fields(x, y)
        if case["e1"].get("closefd") != case["e2"].get("closefd") and 2 in (case["e1"].get("closefd"), case["e2"].get("closefd")):
            d = [k for k in d if k != "stderr"]     # with descriptor 2 closed the diagnostics are lost, legitimately; everything else must not care
        if x["stdout"] is None or y["stdout"] is None:
            d = [k for k in d if k != "stdout"]     # likewise what was sent to the null device
        if case["e1"].get("envfuzz") != case["e2"].get("envfuzz") and (x.get("asked_env") or y.get("asked_env")):
            # a compiler may let an environment variable of its own name a side file (a debug log, say): when the two runs got
            # different answers to getenv(), the set of extra files is not compared -- everything the compilation produces still is
            d = [k for k in d if k != "newfiles"]
        return d
    d = fields(ra, rb)
    if d and not past_hard_stop() and any(x["status"] == 1 and not x["stderr"] and x["out"] is None for x in (ra, rb)):
        # one side died without a word (the driver reports a crashed cc1 by its exit status only). The front end recurses
        # over its input, and the self-compiled compiler has bigger frames than the gcc-compiled one, so a pathological
        # input (a left-deep tree of 32768 initializer elements, say) can exhaust the 8 MiB default stack of one replica
        # and not of the other. How much stack a process has is a resource limit, not something the property quantifies
        # over: the comparison is decided again with 4 GiB of stack for both, and only a difference that survives is one.
        ra2 = run_replica(sdir, reps, case["a"], case["e1"], infile, case["opts"], src, wdir, None, timeout=6 * TIMEOUT, aux=case.get("aux"), bigstack=True)
        rb2 = run_replica(sdir, reps, case["b"], case["e2"], infile, case["opts"], src, wdir, None, timeout=6 * TIMEOUT, aux=case.get("aux"), bigstack=True)
        if "timeout" not in (ra2["status"], rb2["status"]):
            d2 = fields(ra2, rb2)
            if not d2:
                if stats_counter is not None:
                    stats_counter["stack_limit_redecided"] = stats_counter.get("stack_limit_redecided", 0) + 1
                return [], ra2, rb2, held, text
            return d2, ra2, rb2, held, text
    return d, ra, rb, held, text


def minimise(case, sdir, reps, src, wdir, fields):
    n = [0]
    t_stop = time.monotonic() + 90      # a reduction is a convenience: it never takes more than a minute and a half
    if HARD_STOP[0] is not None:
        t_stop = min(t_stop, HARD_STOP[0])

    def still(c):
        if time.monotonic() > t_stop:
            return False
        n[0] += 1
        d, _, _, _, _ = evaluate(c, sdir, reps, src, wdir)
        return bool(d) and bool(set(d) & set(fields))
    best = json.loads(json.dumps(case))
    _, text = materialise(best, src, wdir)
    best["text"] = text
    best["shape"] = None    # (the layout is part of the text from here on)
    # which difference between the two runs matters: same replica? same environment knob by knob?
    if best["a"] != best["b"]:
        c = json.loads(json.dumps(best))
        c["b"] = c["a"]
        if still(c):
            best = c
    for k in KNOBS:
        if best["e1"].get(k) != best["e2"].get(k):
            c = json.loads(json.dumps(best))
            c["e2"][k] = c["e1"].get(k)
            if still(c):
                best = c
    # line-level ddmin of the input
    lines = best["text"].splitlines(True)
    chunk = max(1, len(lines) // 2)
    while chunk >= 1 and n[0] < 250:
        i = 0
        progress = False
        while i < len(lines) and n[0] < 250:
            t = lines[:i] + lines[i + chunk:]
            c = json.loads(json.dumps(best))
            c["text"] = "".join(t)
            if t and still(c):
                lines = t
                best = c
                progress = True
            else:
                i += chunk
        if not progress:
            chunk //= 2
    differing = [k for k in KNOBS if best["e1"].get(k) != best["e2"].get(k)]
    return best, differing, n[0]


def worker(args):
    (wid, sdir, reps, master, start, step, seconds) = args
    src = os.path.join(sdir, "src")
    wdir = os.path.join(sdir, "w%d" % wid)
    os.makedirs(wdir, exist_ok=True)
    stats_file = os.path.join(wdir, "stats")
    own, tests = list_inputs(src)
    t_end = time.monotonic() + seconds
    HARD_STOP[0] = t_end + max(120, seconds // 10)
    out = {"runs": 0, "viol": [], "hashes": set(), "nontrivial": 0, "diagnosed": 0, "crashed": 0, "ok": 0, "samples": [], "sub": {"same_replica_diff_env": 0, "diff_replica_same_env": 0, "diff_both": 0},
           "knob_diffs": dict((k, 0) for k in KNOBS), "held_time": 0, "shim": {}, "by_opt": {}, "mutated": 0, "timeouts": 0, "stack_redecided": 0, "errors": [], "by_family": {}}
    stats_counter.clear()
    k = start
    while time.monotonic() < t_end:
        seed = mix(master, k)
        k += step
        case = gen_case(seed, src, own, tests, sorted(reps))
        try:
            if os.path.exists(stats_file):
                os.unlink(stats_file)
            d, ra, rb, held, text = evaluate(case, sdir, reps, src, wdir, stats_file)
        except Exception as e:
            out["errors"].append("seed %d: %r" % (seed, e))
            continue
        out["runs"] += 1
        out["stack_redecided"] = stats_counter.get("stack_limit_redecided", 0)
        if d is None:
            out["timeouts"] += 1
            continue
        out["held_time"] += 1 if held else 0
        out["mutated"] += 1 if case["mutated"] else 0
        st = ra["status"]
        if st == 0:
            out["ok"] += 1
        elif isinstance(st, int) and st < 0:
            out["crashed"] += 1
        else:
            out["diagnosed"] += 1
        sub = "same_replica_diff_env" if case["a"] == case["b"] else ("diff_replica_same_env" if case["e1"] == case["e2"] else "diff_both")
        out["sub"][sub] += 1
        fm = out["by_family"].setdefault(case.get("family", "?"), [0, 0, 0])     # accepted / diagnosed / crashed identically
        fm[0 if st == 0 else 2 if isinstance(st, int) and st < 0 else 1] += 1
        o = " ".join(case["opts"][:1]) or "(link)"
        out["by_opt"][o] = out["by_opt"].get(o, 0) + 1
        # which perturbations took effect (read back from the shim's own counters)
        eff = set()
        if os.path.exists(stats_file):
            for l in open(stats_file):
                for kv in l.split():
                    kk, _, vv = kv.partition("=")
                    try:
                        out["shim"][kk] = out["shim"].get(kk, 0) + int(vv)
                    except ValueError:
                        pass
                if "calloc=" in l:
                    eff.add("heap")
                if "clock_reads=" in l and "clock_reads=0" not in l:
                    eff.add("clock")
        for kn in KNOBS:
            if case["e1"][kn] != case["e2"][kn]:
                out["knob_diffs"][kn] += 1
        nonempty = bool(ra["out"] or ra["stdout"] or ra["stderr"])
        if nonempty and (case["e1"]["heap"] != case["e2"]["heap"] and "heap" in eff or case["a"] != case["b"]):
            out["nontrivial"] += 1
            out["hashes"].add(sha("%s|%s|%s|%d|%d|%s" % (case["input"], sha(text), " ".join(case["opts"]), case["a"], case["b"], sha(json.dumps([case["e1"], case["e2"]], sort_keys=True)))))
        if len(out["samples"]) < 2:
            out["samples"].append({"seed": seed, "input": case["input"], "mutated": case["mutated"], "opts": case["opts"], "replica_a": case["a"], "replica_b": case["b"],
                                   "env_a": case["e1"], "env_b": case["e2"], "status": st, "output_bytes": len(ra["out"] or ra["stdout"] or b"")})
        if d:
            # gate 1: the same case again gives the same difference
            d2, ra2, rb2, _, _ = evaluate(case, sdir, reps, src, wdir)
            if d2 != d and "timeout" in (ra["status"], rb["status"], ra2["status"], rb2["status"]):
                out["timeouts"] += 1      # one side ran into the wall-clock limit once and not the other time: a loaded machine, nothing to report
                continue
            if d2 != d:
                out["viol"].append({"cls": "NONDETERMINISTIC", "seed": seed, "text": "fields %s then %s for %s %s" % (d, d2, case["input"], case["opts"])})
                continue
            if len(out["viol"]) >= 2:
                continue
            mc, knobs, nx = minimise(case, sdir, reps, src, wdir, d)
            dm, ma, mb, _, _ = evaluate(mc, sdir, reps, src, wdir)
            if not dm:
                mc, dm, ma, mb, knobs = case, d, ra, rb, [kn for kn in KNOBS if case["e1"][kn] != case["e2"][kn]]
                mc = json.loads(json.dumps(case))
                mc["text"] = text

            def show(x):
                return (x.decode(errors="replace")[:300] if isinstance(x, bytes) else repr(x))
            f0 = dm[0]
            out["viol"].append({"cls": "output-differs", "seed": seed, "case": mc, "fields": dm, "knobs": knobs, "min_execs": nx,
                                "text": "replica stage %d vs stage %d, differing environment knobs: %s, differing fields: %s\noptions: %s\ninput (%d lines):\n%s\n--- %s of run A:\n%s\n--- %s of run B:\n%s" % (
                                    mc["a"], mc["b"], ",".join(knobs) or "none", ",".join(dm), " ".join(mc["opts"]), len(mc["text"].splitlines()),
                                    mc["text"][:600], f0, show(ma[f0]), f0, show(mb[f0]))})
    shutil.rmtree(wdir, ignore_errors=True)
    out["hashes"] = sorted(out["hashes"])
    return out


def det_worker(args):
    (wid, sdir, reps, master, start, step, total) = args
    src = os.path.join(sdir, "src")
    wdir = os.path.join(sdir, "wd%d" % wid)
    os.makedirs(wdir, exist_ok=True)
    own, tests = list_inputs(src)
    n = bad = 0
    msgs = []
    for k in range(start, total, step):
        case = gen_case(mix(master ^ 0xDE7, k), src, own, tests, sorted(reps))
        infile, text = materialise(case, src, wdir)
        a1 = run_replica(sdir, reps, case["a"], case["e1"], infile, case["opts"], src, wdir, None)
        a2 = run_replica(sdir, reps, case["a"], case["e1"], infile, case["opts"], src, wdir, None)
        n += 1
        if "timeout" in (a1["status"], a2["status"]):
            continue        # (a loaded machine; not a statement about the simulation)
        if diff_fields(a1, a2):
            bad += 1
            msgs.append("%s %s stage %d: %s" % (case["input"], " ".join(case["opts"]), case["a"], ",".join(diff_fields(a1, a2))))
    shutil.rmtree(wdir, ignore_errors=True)
    return n, bad, msgs


def fixpoint(sdir, reps, src, rep, stats):
    """stage 1, 2 and 3 must emit identical assembly for every one of the compiler's own sources
    (stage-1 output is the code of stage 2, stage-2 output the code of stage 3: 'stage 2 equals stage 3')"""
    own, _ = list_inputs(src)
    wdir = os.path.join(sdir, "wfix")
    os.makedirs(wdir, exist_ok=True)
    r = Rng(master_seed() ^ 0xF1)
    n = 0
    for f in own:
        outs = {}
        for stage in sorted(reps):
            e = gen_env(r)
            e["stdout_kind"], e["closefd"] = "pipe", None     # (every stream is kept and compared here)
            res = run_replica(sdir, reps, stage, e, f, ["-S"], src, wdir, None)
            outs[stage] = res
            n += 1
        for a, b in ((1, 2), (2, 3)):
            if a not in outs or b not in outs:
                continue
            d = [k for k in diff_fields(outs[a], outs[b]) if k != "newfiles" or not (outs[a].get("asked_env") or outs[b].get("asked_env"))]     # (each stage has an environment of its own here, getenv answers included)
            if d:
                case = {"seed": 0, "input": os.path.relpath(f, src), "mutated": False, "mut_seed": 0, "opts": ["-S"], "a": a, "b": b, "e1": gen_env(r), "e2": gen_env(r)}
                rp = save_replay(PROP, int(sha(f), 16), {"engine": "envsim", "property": PROP, "class": "fixpoint", "case": case})
                rep.violation("class=fixpoint file=%s stages=%d,%d" % (os.path.basename(f), a, b), rp,
                              "stage %d and stage %d emit different %s for %s" % (a, b, ",".join(d), os.path.basename(f)))
    shutil.rmtree(wdir, ignore_errors=True)
    stats["fixpoint_compilations"] = n


def main(argv):
    tier = tier_from_args(argv)
    t0 = now()
    master = master_seed()
    os.environ.setdefault("VERIF_TMP", "/dev/shm" if os.path.isdir("/dev/shm") else "/var/tmp")
    sdir = scratch("verif-c12")
    rep = Reporter(PROP)
    try:
        reps, problem = build_replicas(sdir)
    except BuildError as e:
        print("HARNESS-ERROR property=%s cannot build: %s" % (PROP, e))
        return 2
    src = os.path.join(sdir, "src")
    if "--replay" in argv:
        path = argv[argv.index("--replay") + 1]
        plan = json.load(open(path))
        wdir = os.path.join(sdir, "wreplay")
        os.makedirs(wdir, exist_ok=True)
        d, ra, rb, _, _ = evaluate(plan["case"], sdir, reps, src, wdir)
        print("REPLAY differing=%s" % ",".join(d or []))
        for f in d or []:
            print("--- %s A: %r\n--- %s B: %r" % (f, (ra[f] or b"")[:300] if isinstance(ra[f], bytes) else ra[f], f, (rb[f] or b"")[:300] if isinstance(rb[f], bytes) else rb[f]))
        if d:
            print("VIOLATION property=%s replay=%s" % (PROP, path))
        return 1 if d else 0

    rep.clean_replays()
    stats = {}
    if problem:
        # the self-compiled compiler cannot even be built: that is a violation by itself; the comparisons
        # below go on with the stages that exist, which usually names the cause (e.g. a dependence on heap contents)
        rp = save_replay(PROP, 0, {"engine": "envsim", "property": PROP, "class": "bootstrap-fails", "text": problem,
                                   "case": {"input": "main.c", "mutated": False, "mut_seed": 0, "opts": ["-S"], "a": 1, "b": max(reps), "e1": gen_env(Rng(1)), "e2": gen_env(Rng(1))}})
        rep.violation("class=bootstrap-fails", rp, problem)
    fixpoint(sdir, reps, src, rep, stats)
    import multiprocessing as mp
    seconds = 50 if tier == "quick" else 1100
    with mp.get_context("fork").Pool(NCPU) as pool:
        results = pool.map(worker, [(w, sdir, reps, master, w, NCPU, seconds) for w in range(NCPU)])
    # determinism of the simulation itself: the same case evaluated twice gives byte-identical observations
    det_n = 64 if tier == "quick" else 600
    with mp.get_context("fork").Pool(NCPU) as pool:
        det = pool.map(det_worker, [(w, sdir, reps, master, w, NCPU, det_n) for w in range(NCPU)])
    stats["determinism_pairs"] = sum(d[0] for d in det)
    stats["determinism_mismatches"] = sum(d[1] for d in det)
    for d in det:
        for t in d[2][:3]:
            rep.harness_error("case did not repeat exactly: " + t)
    agg = {"runs": 0, "nontrivial": 0, "diagnosed": 0, "crashed": 0, "ok": 0, "held_time": 0, "mutated": 0, "timeouts": 0, "stack_redecided": 0}
    sub, knob, shim, by_opt, by_family = {}, {}, {}, {}, {}
    hashes, samples = set(), []
    for r in results:
        for k in agg:
            agg[k] += r[k]
        for d, s in ((sub, r["sub"]), (knob, r["knob_diffs"]), (shim, r["shim"]), (by_opt, r["by_opt"])):
            for k, v in s.items():
                d[k] = d.get(k, 0) + v
        for k, v in r["by_family"].items():
            t = by_family.setdefault(k, [0, 0, 0])
            for j in range(3):
                t[j] += v[j]
        hashes |= set(r["hashes"])
        samples += r["samples"]
        for e in r["errors"][:2]:
            rep.harness_error(e)
        for v in r["viol"]:
            if v["cls"] == "NONDETERMINISTIC":
                rep.harness_error("seed %d did not repeat: %s" % (v["seed"], v["text"]))
                continue
            plan = {"engine": "envsim", "property": PROP, "class": v["cls"], "seed": v["seed"], "case": v["case"], "fields": v["fields"], "knobs": v["knobs"]}
            rp = save_replay(PROP, v["seed"], plan)
            # gate 2: fresh process
            p = subprocess.run([sys.executable, os.path.abspath(__file__), "--replay", rp], stdout=subprocess.PIPE, stderr=subprocess.STDOUT)
            if p.returncode != 1:
                rep.harness_error("seed %d: minimised case does not replay in a fresh process" % v["seed"])
                try:
                    os.unlink(rp)
                except OSError:
                    pass
                continue
            ident = "class=%s stages=%d,%d knobs=%s fields=%s opts=%s id=%s" % (v["cls"], v["case"]["a"], v["case"]["b"], ",".join(v["knobs"]) or "none", ",".join(v["fields"]),
                                                                          "".join(v["case"]["opts"][:2]), sha(v["case"].get("text", ""))[:6])
            rep.violation(ident, rp, v["text"] + "\n(minimised in %d executions)" % v["min_execs"])
    wall = now() - t0
    evals = agg["runs"] + stats.get("fixpoint_compilations", 0) // 3
    coverage = {
        "evaluations": evals,
        "distinct_nontrivial": len(hashes),
        "rule": "one evaluation = one comparison: an input (one of the compiler's 9 sources, one of the bundled tests, or a token-level mutant of either) and an option set "
                "are given to replica A (stage 1, 2 or 3) under simulated environment e1 and to replica B under e2; exit status, stdout, stderr, the output file and the "
                "dependency file must be byte-identical. Non-trivial = the output is non-empty and (the two heaps were laid out and junk-filled differently, as "
                "confirmed by the shim's own counters, or the replicas are different stages). Distinct = distinct (input text, options, replicas, environments).",
        "samples": samples[:3],
        "runs_per_hour": int(evals / wall * 3600) if wall > 0 else 0,
        "compiler_executions": 2 * agg["runs"] + stats.get("fixpoint_compilations", 0),
        "simulated_time": "clock epochs drawn from 1970-01-01 to 2105 (0..4.26e9 s), per-read advance 0 s..463 days, 7 time zones, file times 1970..2096",
        "fixpoint": "all 9 sources compiled with -S by stage 1, 2 and 3 (each under its own environment): pairwise identical" if not any("fixpoint" in i for i, _, _ in rep.new) else "differs",
        "sub_cases": sub,
        "inputs": {"accepted": agg["ok"], "diagnosed": agg["diagnosed"], "front_end_crashed_identically": agg["crashed"], "mutants": agg["mutated"], "both_timed_out": agg["timeouts"],
                   "one_side_died_silently_and_both_agree_with_4GiB_of_stack": agg["stack_redecided"]},
        "fault_kinds_fired": {"environment_knob_differed_between_the_two_runs": knob, "time_held_equal_because_input_mentions_date_macros": agg["held_time"],
                              "shim_counters(all runs)": shim},
        "by_first_option": by_opt,
        "by_input_family": dict((k, {"accepted": v[0], "diagnosed_identically": v[1], "crashed_identically": v[2]}) for k, v in sorted(by_family.items())),
        "determinism": {"cases_run_twice": stats.get("determinism_pairs", 0), "mismatches": stats.get("determinism_mismatches", 0)},
        "components": {"real": ["chibicc stage 1 (gcc-built), stage 2 (built by stage 1), stage 3 (built by stage 2) from the working tree", "GNU as for -c"],
                       "simulated": ["time()/clock_gettime()/gettimeofday()/clock()", "TZ", "HOME/USER/LANG/LC_ALL/COLUMNS/TERM", "getppid()", "input mtime", "malloc/calloc/realloc/free (arena base, padding, junk fill, poison on free, realloc always moves)",
                                     "getpid()", "mkstemp names", "stack offset (environment padding)", "ASLR switched off (setarch -R) so layout is a function of the seed"]},
        "exhaustive": False,
    }
    rc = rep.finish()
    write_evidence(PROP, tier, master, "exploration", coverage,
                   ["replica equivalence is differential execution under controlled environments: explored, not proved",
                    "__DATE__/__TIME__/__TIMESTAMP__ are exempt: for inputs mentioning them clock, zone and file time are held equal in both runs",
                    "resource limits (stack size) and locale are not varied",
                    "each replica is invoked as ./chibicc from its own directory with absolute input paths (argv[0] legitimately appears in include paths)"],
                   wall, len(rep.new))
    print("C12 %s: %d comparisons (%d non-trivial distinct), fixpoint over 9 sources x 3 stages, %d violation(s), %.1fs" % (tier, evals, len(hashes), len(rep.new), wall))
    return rc


if __name__ == "__main__":
    sys.exit(main(sys.argv[1:]))
